"""A9 -- normalisation of the analysed program: private helpers are inlined into their callers.

"Extract method" is the commonest maintenance edit, and every rule in the packs is anchored in a *role* function
(the poll step, the record routine, the candidate filter ...).  Rather than making each rule interprocedural, the
program model is normalised before the rules run: a private helper (name starts with ``_``, not a dunder) that is not
itself an anchor of a rule, is not overridden, has at most ``MAX_SITES`` call sites - all of them direct, resolvable
calls in statement position - and whose ``return`` statements are structured (not inside loops / try / with) is
substituted at its call sites and removed.  The transformation is semantics preserving:

  * the callee's locals (parameters included) are renamed apart from the caller's names when they collide;
  * a parameter that is never assigned in the callee and whose argument is a plain caller local or a constant is replaced
    by the argument; any other argument is bound to the (renamed) parameter by an assignment in call order;
  * ``return e`` becomes an assignment to the call's target (or a temporary); statements following an ``if`` that
    contains a return are moved into the branches that fall through (single-exit form);
  * ``self`` is the receiver of the call.

Nodes copied from a callee carry ``_inl = (relpath, qualname)`` so that reports name the true source location.
Anchors are the role functions and every function whose name appears as a string literal in the checker's own sources
(rules look those up by name).  Nothing under /repo is modified: the transformation acts on the in-memory syntax trees.
"""
from __future__ import annotations

import ast
import copy
import os
import re
from typing import Dict, List, Optional, Set, Tuple

from .model import AnalysisError, FunctionInfo, Program, bind_args

MAX_SITES = 4
MAX_SITES_EXPR = 16  # helpers that are a single return expression
MAX_STMTS = 150
MAX_ROUNDS = 4

_HERE = os.path.dirname(os.path.abspath(__file__))
_literal_cache: Optional[Set[str]] = None


def _checker_literals() -> Set[str]:
    global _literal_cache
    if _literal_cache is None:
        names: Set[str] = set()
        for dirpath, _d, files in os.walk(_HERE):
            if "corpus" in dirpath.split(os.sep):
                continue
            for fn in files:
                if fn.endswith(".py") and fn != "inline.py":
                    try:
                        txt = open(os.path.join(dirpath, fn), encoding="utf-8").read()
                    except OSError:
                        continue
                    names |= set(re.findall(r"[\"']([A-Za-z_][A-Za-z0-9_]*)[\"']", txt))
        _literal_cache = names
    return _literal_cache


def _role_functions(prog: Program) -> Set[FunctionInfo]:
    from .roles import Roles

    out: Set[FunctionInfo] = set()
    try:
        R = Roles(prog)
    except AnalysisError:
        return out
    for attr in dir(type(R)) + list(vars(R)):
        if attr.startswith("__"):
            continue
        try:
            v = getattr(R, attr)
        except Exception:
            continue
        if isinstance(v, FunctionInfo):
            out.add(v)
        elif isinstance(v, (list, tuple)):
            for x in v:
                if isinstance(x, FunctionInfo):
                    out.add(x)
                elif isinstance(x, tuple):
                    out |= {y for y in x if isinstance(y, FunctionInfo)}
    return out


class _Renamer(ast.NodeTransformer):
    def __init__(self, names: Dict[str, str], subst: Dict[str, ast.AST]):
        self.names = names
        self.subst = subst

    def visit_Name(self, node: ast.Name):
        if node.id in self.subst and isinstance(node.ctx, ast.Load):
            return copy.deepcopy(self.subst[node.id])
        if node.id in self.names:
            node.id = self.names[node.id]
        return node

    def visit_arg(self, node):
        return node

    def _scoped(self, node, bound: Set[str]):
        # names bound by a nested scope (lambda / def parameters, the nested def's own locals) are that scope's business
        saved = (self.names, self.subst)
        self.names = {k: v for k, v in self.names.items() if k not in bound}
        self.subst = {k: v for k, v in self.subst.items() if k not in bound}
        try:
            return self.generic_visit(node)
        finally:
            self.names, self.subst = saved

    def visit_Lambda(self, node):
        a = node.args
        bound = {x.arg for x in list(a.posonlyargs) + list(a.args) + list(a.kwonlyargs)} | ({a.vararg.arg} if a.vararg else set()) | ({a.kwarg.arg} if a.kwarg else set())
        # defaults are evaluated in the enclosing scope
        a.defaults = [self.visit(d) for d in a.defaults]
        a.kw_defaults = [self.visit(d) if d is not None else None for d in a.kw_defaults]
        saved = (self.names, self.subst)
        self.names = {k: v for k, v in self.names.items() if k not in bound}
        self.subst = {k: v for k, v in self.subst.items() if k not in bound}
        try:
            node.body = self.visit(node.body)
        finally:
            self.names, self.subst = saved
        return node

    def visit_FunctionDef(self, node):
        a = node.args
        bound = {x.arg for x in list(a.posonlyargs) + list(a.args) + list(a.kwonlyargs)} | ({a.vararg.arg} if a.vararg else set()) | ({a.kwarg.arg} if a.kwarg else set())
        for n in ast.walk(node):
            if n is not node and isinstance(n, ast.Name) and isinstance(n.ctx, (ast.Store, ast.Del)):
                bound.add(n.id)
        if node.name in self.names:
            node.name = self.names[node.name]
        a.defaults = [self.visit(d) for d in a.defaults]
        a.kw_defaults = [self.visit(d) if d is not None else None for d in a.kw_defaults]
        saved = (self.names, self.subst)
        self.names = {k: v for k, v in self.names.items() if k not in bound}
        self.subst = {k: v for k, v in self.subst.items() if k not in bound}
        try:
            node.body = [self.visit(b) for b in node.body]
        finally:
            self.names, self.subst = saved
        return node


def _is_attr_chain(e) -> bool:
    while isinstance(e, ast.Attribute):
        e = e.value
    return isinstance(e, ast.Name)


def _contains(node, kinds) -> bool:
    return any(isinstance(n, kinds) for n in ast.walk(node))


def _structured_returns(stmts) -> bool:
    """every Return is reachable through If statements only."""
    for s in stmts:
        if isinstance(s, ast.Return):
            continue
        if isinstance(s, ast.If):
            if not _structured_returns(s.body) or not _structured_returns(s.orelse):
                return False
        elif _contains(s, ast.Return):
            return False
    return True


def _single_exit(stmts: List[ast.stmt], on_return) -> Tuple[List[ast.stmt], bool]:
    """-> (statements, every path ended in a return)."""
    out: List[ast.stmt] = []
    for i, s in enumerate(stmts):
        if isinstance(s, ast.Return):
            out += on_return(s.value)
            return out, True
        if isinstance(s, ast.Raise):
            out.append(s)
            return out, True  # the path ends here: nothing falls through
        if isinstance(s, ast.If) and _contains(s, ast.Return):
            rest = stmts[i + 1:]
            b, rb = _single_exit(list(s.body) + [copy.deepcopy(x) for x in rest], on_return)
            o, ro = _single_exit(list(s.orelse) + rest, on_return)
            new = ast.If(test=s.test, body=b or [ast.Pass()], orelse=o)
            ast.copy_location(new, s)
            out.append(new)
            return out, rb and ro
        out.append(s)
    return out, False


def _assigned_names(fn_node) -> Set[str]:
    """names bound in the function's own scope (parameters, stores, nested def names); nested scopes keep theirs"""
    out = set()
    a = fn_node.args
    for x in list(a.posonlyargs) + list(a.args) + list(a.kwonlyargs) + [y for y in (a.vararg, a.kwarg) if y]:
        out.add(x.arg)
    stack = list(fn_node.body)
    while stack:
        n = stack.pop()
        if isinstance(n, (ast.FunctionDef, ast.AsyncFunctionDef, ast.ClassDef)):
            out.add(n.name)
            continue
        if isinstance(n, ast.Lambda):
            continue
        if isinstance(n, ast.Name) and isinstance(n.ctx, (ast.Store, ast.Del)):
            out.add(n.id)
        elif isinstance(n, ast.ExceptHandler) and n.name:
            out.add(n.name)
        stack.extend(ast.iter_child_nodes(n))
    return out


def _all_names(fn_node) -> Set[str]:
    out = set()
    for n in ast.walk(fn_node):
        if isinstance(n, ast.Name):
            out.add(n.id)
        elif isinstance(n, ast.arg):
            out.add(n.arg)
    return out


def _helper_as_expression(body: List[ast.stmt], boolean_context: bool) -> Optional[ast.AST]:
    """A helper made of guard clauses and returns only (``if c: return False`` ... ``return e``) as one expression:
    ``if c: return False; rest`` -> ``(not c) and rest``; ``if c: return True; rest`` -> ``c or rest`` (boolean contexts);
    otherwise ``v if c else rest``.  None when the body does anything else."""
    if not body:
        return None
    s0 = body[0]
    if isinstance(s0, ast.Return):
        return copy.deepcopy(s0.value) if s0.value is not None else ast.Constant(value=None)
    if isinstance(s0, ast.If):
        if s0.orelse:
            a, b = _helper_as_expression(s0.body, boolean_context), _helper_as_expression(s0.orelse, boolean_context)
            if a is None or b is None or len(body) > 1:
                return None
            return ast.IfExp(test=copy.deepcopy(s0.test), body=a, orelse=b)
        if len(s0.body) != 1 or not isinstance(s0.body[0], ast.Return):
            return None
        rest = _helper_as_expression(body[1:], boolean_context)
        if rest is None:
            return None
        v = s0.body[0].value
        if isinstance(v, ast.Constant) and v.value is False:
            return ast.BoolOp(op=ast.And(), values=[ast.UnaryOp(op=ast.Not(), operand=copy.deepcopy(s0.test)), rest])
        if isinstance(v, ast.Constant) and v.value is True and boolean_context:
            return ast.BoolOp(op=ast.Or(), values=[copy.deepcopy(s0.test), rest])
        return ast.IfExp(test=copy.deepcopy(s0.test), body=copy.deepcopy(v) if v is not None else ast.Constant(value=None), orelse=rest)
    return None


def _test_context(prog: Program, call: ast.Call):
    """the While / If whose test contains the call with only boolean operators in between, else None"""
    child = call
    for p in prog.ancestors(call):
        if isinstance(p, (ast.BoolOp,)) or (isinstance(p, ast.UnaryOp) and isinstance(p.op, ast.Not)):
            child = p
            continue
        if isinstance(p, ast.Call) and len(p.args) == 1 and p.args[0] is child and not p.keywords and ast.unparse(p.func) in ("np.any", "np.all", "any", "all", "bool"):
            child = p  # a reduction of the helper's (mask-valued) result
            continue
        if isinstance(p, (ast.While, ast.If)) and p.test is child:
            return p
        return None
    return None


def _stmt_context(prog: Program, call: ast.Call):
    """-> (statement, kind) where kind in {'assign', 'expr', 'temp', 'iftest'} or None if the call cannot be hoisted."""
    child = call
    for p in prog.ancestors(call):
        if isinstance(p, (ast.Lambda, ast.ListComp, ast.SetComp, ast.DictComp, ast.GeneratorExp, ast.IfExp)):
            return None
        if isinstance(p, ast.BoolOp):
            # hoisting an operand other than the first would change short-circuit evaluation
            if p.values[0] is not child:
                return None
        if isinstance(p, ast.stmt):
            if isinstance(p, ast.Assign) and p.value is call:
                return p, "assign"
            if isinstance(p, ast.Expr) and p.value is call:
                return p, "expr"
            if isinstance(p, (ast.Assign, ast.AugAssign, ast.AnnAssign, ast.Expr, ast.Return)):
                return p, "temp"
            if isinstance(p, ast.If):
                # only when the call sits in the test (not in the body, which would have hit a statement first)
                return p, "iftest"
            return None
        child = p
    return None


def _block_of(prog: Program, stmt: ast.stmt):
    par = prog.parent(stmt)
    for field in ("body", "orelse", "finalbody"):
        blk = getattr(par, field, None)
        if isinstance(blk, list) and any(x is stmt for x in blk):
            return blk
    if isinstance(par, ast.Try):
        for h in par.handlers:
            if any(x is stmt for x in h.body):
                return h.body
    if isinstance(par, ast.ExceptHandler) and any(x is stmt for x in par.body):
        return par.body
    return None


INVENTORY = os.path.join(_HERE, "inventory.json")


def body_hash(node) -> str:
    import hashlib

    body = list(node.body)
    if body and isinstance(body[0], ast.Expr) and isinstance(body[0].value, ast.Constant) and isinstance(body[0].value.value, str):
        body = body[1:]
    txt = "|".join(ast.dump(s, annotate_fields=False) for s in body)
    return hashlib.sha1(txt.encode()).hexdigest()[:16]


def write_inventory(prog: Program):
    import json

    inv = {f.qualname: body_hash(f.node) for f in prog.functions()}
    with open(INVENTORY, "w") as fh:
        json.dump(inv, fh, indent=0, sort_keys=True)
    return inv


_inv_cache = None


def _inventory():
    """functions of the reference tree (the tree the rules were validated on): name -> body hash.  A helper is a candidate
    for inlining only when it is *new* with respect to this table (neither its name nor its body is known): that is the
    'extract method' case.  Inlining is semantics preserving in any case; the table only keeps the functions the rules are
    anchored in (and renamed copies of them) in place."""
    global _inv_cache
    if _inv_cache is None:
        import json

        try:
            inv = json.load(open(INVENTORY))
        except OSError:
            inv = {}
        _inv_cache = ({q.split(":")[-1].split(".")[-1] for q in inv}, set(inv.values()))
    return _inv_cache


def _unit_roles(prog: Program) -> Set[FunctionInfo]:
    """roles whose function *is* the unit the rules reason about whatever it is called and however it is written
    (the routine that seeds the global generator): kept as functions even when new."""
    out: Set[FunctionInfo] = set()
    try:
        from .roles import Roles

        f = Roles(prog).seed_fn
        if f is not None and f.name != "__init__" and not f.name.startswith("__"):
            out.add(f)
    except Exception:
        pass
    return out


def _candidates(prog: Program):
    anchors = _unit_roles(prog)
    lits = _checker_literals()
    known_names, known_bodies = _inventory()
    graph_sites: Dict[FunctionInfo, list] = {}
    for caller in prog.functions():
        for call, targets in prog.calls_in(caller):
            fs = [t for t in targets if isinstance(t, FunctionInfo)]
            if len(fs) == 1 and len(targets) == 1:
                graph_sites.setdefault(fs[0], []).append((caller, call))
    # every textual reference to a name (to make sure all uses are calls we found)
    refs: Dict[str, int] = {}
    for m in prog.modules.values():
        for n in ast.walk(m.tree):
            if isinstance(n, ast.Attribute):
                refs[n.attr] = refs.get(n.attr, 0) + 1
            elif isinstance(n, ast.Name):
                refs[n.id] = refs.get(n.id, 0) + 1
    plan = []
    for f, sites in graph_sites.items():
        nm = f.name
        if nm.startswith("__") and nm.endswith("__"):
            continue
        # (a helper without a leading underscore is inlined as well when it is new with respect to the reference tree and
        # every reference to its name in the package is a resolved call: for the analysis it is an internal helper)
        if nm in lits or nm in known_names or body_hash(f.node) in known_bodies or f in anchors:
            continue  # a function of the reference tree (possibly renamed): the rules may be anchored in it
        # (a *new* helper is inlined even when role discovery, run on the un-normalised tree, picked it - e.g. the loop
        # of the initial design moved into a helper: after inlining the role is found where it was)
        one_liner = [b_ for b_ in f.node.body if not (isinstance(b_, ast.Expr) and isinstance(b_.value, ast.Constant))]
        max_sites = MAX_SITES_EXPR if len(one_liner) == 1 and isinstance(one_liner[0], ast.Return) else MAX_SITES
        if not (1 <= len(sites) <= max_sites) or refs.get(nm, 0) != len(sites):
            continue
        node = f.node
        decos = [ast.unparse(d) for d in node.decorator_list]
        if any(d not in ("staticmethod",) for d in decos):
            continue
        a = node.args
        if a.vararg or a.kwarg or a.posonlyargs:
            continue
        body = list(node.body)
        if body and isinstance(body[0], ast.Expr) and isinstance(body[0].value, ast.Constant) and isinstance(body[0].value.value, str):
            body = body[1:]
        if not body or sum(1 for _ in ast.walk(node) if isinstance(_, ast.stmt)) > MAX_STMTS:
            continue
        if any(_contains(s, (ast.AsyncFunctionDef, ast.ClassDef, ast.Yield, ast.YieldFrom, ast.Global, ast.Nonlocal, ast.Await)) for s in body):
            continue
        has_closure = any(_contains(s, (ast.FunctionDef, ast.Lambda)) for s in body)
        if has_closure:
            # closures bind the helper's variables late: exact only for one call site outside any loop (one frame, as before)
            if len(sites) != 1 or any(isinstance(p_, (ast.For, ast.While, ast.AsyncFor, ast.ListComp, ast.GeneratorExp, ast.Lambda)) for p_ in prog.ancestors(sites[0][1])):
                continue
        if not _structured_returns(body):
            continue
        if f.cls is not None:
            # not part of an override chain
            if any(nm in c.methods for c in f.cls.subclasses(prog)) or any(nm in b.methods for b in f.cls.mro()[1:]):
                continue
        ok = True
        ctxs = []
        for caller, call in sites:
            if caller is f or call.keywords and any(k.arg is None for k in call.keywords) or any(isinstance(x, ast.Starred) for x in call.args):
                ok = False
                break
            sc = _stmt_context(prog, call)
            if sc is None:
                # a predicate helper in a loop / branch condition: substituted as an expression
                tc = _test_context(prog, call)
                from .aggregates import _same_object_each_time

                hexpr = _helper_as_expression(body, True) if tc is not None else None
                if hexpr is not None:
                    args_ = list(call.args) + [k_.value for k_ in call.keywords]
                    pnames = [a_.arg for a_ in f.node.args.args if a_.arg != "self"]
                    uses_ = [n_.id for n_ in ast.walk(hexpr) if isinstance(n_, ast.Name) and n_.id in pnames]
                    single_call = sorted(uses_) == sorted(pnames) and all(
                        any(isinstance(x_, ast.Name) and x_.id in pnames for x_ in ast.walk(n_)) for n_ in ast.walk(hexpr) if isinstance(n_, ast.Call))
                    # arguments are evaluated where the parameters stand: fine for plain references, and for arbitrary
                    # arguments when every call in the helper's expression wraps a parameter and every parameter is used exactly once
                    if all(_same_object_each_time(a_) for a_ in args_) or single_call:
                        ctxs.append((tc, "exprsubst"))
                        continue
            if sc is None or _block_of(prog, sc[0]) is None:
                ok = False
                break
            if sc[1] == "iftest" and not any(n is call for n in ast.walk(sc[0].test)):
                ok = False
                break
            ctxs.append(sc)
        if ok:
            plan.append((f, body, sites, ctxs, "staticmethod" in decos))
    return plan


_counter = [0]


def _direct_attr_writes(fn_node) -> Set[str]:
    """attribute names re-bound in this function (``x.a = ..``, ``x.a += ..``, for/with targets, setattr)."""
    out: Set[str] = set()
    for n in ast.walk(fn_node):
        if isinstance(n, ast.Attribute) and isinstance(n.ctx, (ast.Store, ast.Del)):
            out.add(n.attr)
        elif isinstance(n, ast.Call) and isinstance(n.func, ast.Name) and n.func.id in ("setattr", "delattr"):
            if len(n.args) >= 2 and isinstance(n.args[1], ast.Constant) and isinstance(n.args[1].value, str):
                out.add(n.args[1].value)
            else:
                out.add("*")
        elif isinstance(n, ast.Attribute) and n.attr == "__dict__":
            out.add("*")
    return out


def _may_rebind_attrs(prog: Program, f: FunctionInfo, names: Set[str]) -> bool:
    """Can running f re-bind an attribute called one of ``names`` on any object?  Closure over resolved package callees;
    an unresolved method call ``x.m(..)`` may reach every package function called m."""
    cache = getattr(prog, "_attr_write_cache", None)
    if cache is None:
        cache = prog._attr_write_cache = {}
    by_name: Dict[str, List[FunctionInfo]] = {}
    for g in prog.functions():
        by_name.setdefault(g.name, []).append(g)
    seen: Set[int] = set()
    stack = [f]
    while stack:
        g = stack.pop()
        if id(g.node) in seen:
            continue
        seen.add(id(g.node))
        w = cache.get(id(g.node))
        if w is None:
            w = cache[id(g.node)] = _direct_attr_writes(g.node)
        if "*" in w or (w & names):
            return True
        for call, tg in prog.calls_in(g):
            pk = [t for t in tg if isinstance(t, FunctionInfo)]
            if pk:
                stack.extend(pk)
            elif not tg and isinstance(call.func, ast.Attribute):
                stack.extend(by_name.get(call.func.attr, []))
                stack.extend(by_name.get("__call__", []) if False else [])
            elif not tg and isinstance(call.func, ast.Name):
                stack.extend(by_name.get(call.func.id, []))
    return False


def _substitute_expression(f: FunctionInfo, body, call: ast.Call, holder, is_static: bool):
    """replace ``call`` inside ``holder.test`` by the helper's body written as an expression (arguments for parameters)"""
    expr = _helper_as_expression(body, True)
    params = [a.arg for a in f.node.args.args] + [a.arg for a in f.node.args.kwonlyargs]
    bound = bind_args(f, call)
    subst: Dict[str, ast.AST] = {}
    is_method = f.cls is not None and not is_static and params and params[0] == "self"
    for p in params:
        if is_method and p == "self":
            recv = call.func.value if isinstance(call.func, ast.Attribute) else None
            if recv is not None and not (isinstance(recv, ast.Name) and recv.id == "self"):
                subst["self"] = recv
            continue
        arg = bound.get(p)
        if arg is None:
            from .model import param_default

            arg = param_default(f, p)
        if arg is None:
            raise AnalysisError(f"cannot bind parameter {p} of {f.qualname}")
        subst[p] = arg
    expr = _Renamer({}, subst).visit(expr)
    origin = (f.module.relpath, f.qualname)
    for n in ast.walk(expr):
        if not hasattr(n, "_inl"):
            n._inl = origin
        if isinstance(n, (ast.expr,)) and not hasattr(n, "lineno"):
            n.lineno, n.col_offset = call.lineno, call.col_offset

    class R(ast.NodeTransformer):
        def visit_Call(self, node):
            if node is call:
                return ast.copy_location(expr, node)
            return self.generic_visit(node)

    holder.test = R().visit(holder.test)
    ast.fix_missing_locations(holder)


def _inline_site(prog: Program, f: FunctionInfo, body, caller: FunctionInfo, call: ast.Call, stmt: ast.stmt, kind: str, is_static: bool, taken: Set[str]):
    _counter[0] += 1
    k = _counter[0]
    params = [a.arg for a in f.node.args.args] + [a.arg for a in f.node.args.kwonlyargs]
    bound = bind_args(f, call)
    pre: List[ast.stmt] = []
    names: Dict[str, str] = {}
    subst: Dict[str, ast.AST] = {}
    callee_assigned = set()
    for s in body:
        for n in ast.walk(s):
            if isinstance(n, ast.Name) and isinstance(n.ctx, (ast.Store, ast.Del)):
                callee_assigned.add(n.id)
    callee_locals = _assigned_names(f.node)
    closure_reads: Set[str] = set()
    for s in body:
        for n in ast.walk(s):
            if isinstance(n, (ast.Lambda, ast.FunctionDef)):
                closure_reads |= {x.id for x in ast.walk(n) if isinstance(x, ast.Name)}

    # a callee local may keep its name when it only collides with a target of the call statement that is not also
    # passed in: the target is overwritten by the call anyway and nothing reads it while the inlined body runs
    arg_names_all = {n.id for a_ in list(call.args) + [k_.value for k_ in call.keywords] for n in ast.walk(a_) if isinstance(n, ast.Name)}
    reuse = set()
    if kind == "assign":
        for t_ in stmt.targets:
            reuse |= {n.id for n in ast.walk(t_) if isinstance(n, ast.Name)}
        reuse -= arg_names_all

    def fresh(nm: str) -> str:
        if nm in reuse and nm not in params:
            return nm
        new = nm if nm not in taken else f"{nm}__{k}"
        while new in taken and new != nm:
            new += "_"
        taken.add(new)
        return new

    pure_body = True
    for s_ in body:
        for n in ast.walk(s_):
            if isinstance(n, (ast.Attribute, ast.Subscript)) and isinstance(getattr(n, "ctx", None), (ast.Store, ast.Del)):
                pure_body = False
            if isinstance(n, ast.Call):
                d_ = ast.unparse(n.func)
                if not (d_.startswith("np.") or d_.startswith("numpy.") or d_ in ("len", "int", "float", "bool", "min", "max", "abs", "str", "isinstance", "range", "tuple", "list")):
                    pure_body = False
    is_method = f.cls is not None and not is_static and params and params[0] == "self"
    # in-out parameters: ``X, Y, s2 = helper(X, Y, s2)`` where every return hands the (re-assigned) parameter back in the
    # position of the target with the argument's own name - the parameter simply is the caller's variable
    inout: Dict[str, str] = {}
    if kind == "assign" and len(stmt.targets) == 1:
        tgt_ = stmt.targets[0]
        tn_ = [e.id if isinstance(e, ast.Name) else None for e in tgt_.elts] if isinstance(tgt_, ast.Tuple) else ([tgt_.id] if isinstance(tgt_, ast.Name) else [])
        rets_ = [n for s_ in body for n in ast.walk(s_) if isinstance(n, ast.Return)]
        rows_ = []
        for r_ in rets_:
            v_ = r_.value
            rows_.append([e.id if isinstance(e, ast.Name) else None for e in v_.elts] if isinstance(v_, ast.Tuple) else ([v_.id] if isinstance(v_, ast.Name) else [None]))
        if tn_ and rows_ and all(len(r_) == len(tn_) for r_ in rows_):
            arg_uses: Dict[str, int] = {}
            for a_ in list(call.args) + [k_.value for k_ in call.keywords]:
                for n_ in ast.walk(a_):
                    if isinstance(n_, ast.Name):
                        arg_uses[n_.id] = arg_uses.get(n_.id, 0) + 1
            for p_ in params:
                a_ = bound.get(p_)
                if isinstance(a_, ast.Name) and p_ in callee_assigned and arg_uses.get(a_.id) == 1:
                    idxs = [i_ for i_, t_ in enumerate(tn_) if t_ == a_.id]
                    if len(idxs) == 1 and all(r_[idxs[0]] == p_ for r_ in rows_) and all(r_.count(p_) == 1 for r_ in rows_):
                        # the caller's name must not collide with another local of the helper
                        if a_.id == p_ or a_.id not in (callee_locals | set(params)):
                            inout[p_] = a_.id
    for p in params:
        if p in inout:
            names[p] = inout[p]
            continue
        if is_method and p == "self":
            recv = call.func.value if isinstance(call.func, ast.Attribute) else None
            if isinstance(recv, ast.Name):
                if recv.id != "self":
                    subst["self"] = recv
            elif recv is not None:
                new = fresh("self_")
                names["self"] = new
                pre.append(ast.Assign(targets=[ast.Name(id=new, ctx=ast.Store())], value=copy.deepcopy(recv), lineno=stmt.lineno, col_offset=stmt.col_offset))
            continue
        arg = bound.get(p)
        if arg is None:
            from .model import param_default

            arg = param_default(f, p)
            if arg is None:
                raise AnalysisError(f"cannot bind parameter {p} of {f.qualname}")
        simple = isinstance(arg, ast.Constant) or (isinstance(arg, ast.Name) and arg.id not in callee_assigned)
        if p in closure_reads and not isinstance(arg, ast.Constant):
            # a closure of the helper reads this parameter whenever it is called later: the caller's expression may only
            # stand in for it if the caller never re-binds it after the call
            later = isinstance(arg, ast.Name) and not any(
                isinstance(n, ast.Name) and n.id == arg.id and isinstance(n.ctx, (ast.Store, ast.Del)) and getattr(n, "_ord", 10**9) > getattr(stmt, "_ord", -1)
                for n in ast.walk(caller.node))
            simple = bool(later) and arg.id not in callee_assigned
            if not simple:
                new = fresh(p)
                names[p] = new
                pre.append(ast.Assign(targets=[ast.Name(id=new, ctx=ast.Store())], value=copy.deepcopy(arg), lineno=stmt.lineno, col_offset=stmt.col_offset))
                continue
        if not simple and pure_body and _is_attr_chain(arg):
            simple = True  # ``self.lb`` read by a helper that stores nothing and calls only numpy / builtins
        if not simple and _is_attr_chain(arg) and isinstance(arg, ast.Attribute):
            # ``self.u`` handed to a helper that (with everything it may call) never re-binds an attribute of that name:
            # the parameter is the attribute for the whole body
            chain, root = set(), arg
            while isinstance(root, ast.Attribute):
                chain.add(root.attr)
                root = root.value
            if isinstance(root, ast.Name) and root.id not in callee_assigned and not _may_rebind_attrs(prog, f, chain):
                simple = True
        if simple and p not in callee_assigned:
            subst[p] = arg
        else:
            new = fresh(p)
            names[p] = new
            a_ = ast.Assign(targets=[ast.Name(id=new, ctx=ast.Store())], value=copy.deepcopy(arg), lineno=stmt.lineno, col_offset=stmt.col_offset)
            pre.append(a_)
    # returned locals written straight into the caller's targets: ``a, b = helper()`` with ``return (u, v)`` and u, v
    # plain locals of the helper (not parameters) -> u, v are renamed to a, b, the return becomes an identity assignment
    direct: Dict[str, str] = {}
    if kind == "assign" and len(stmt.targets) == 1:
        tgt = stmt.targets[0]
        tnames = [e.id if isinstance(e, ast.Name) else None for e in tgt.elts] if isinstance(tgt, ast.Tuple) else ([tgt.id] if isinstance(tgt, ast.Name) else [None])
        rets = [n for s_ in body for n in ast.walk(s_) if isinstance(n, ast.Return)]
        if rets and None not in tnames and len(set(tnames)) == len(tnames):
            rows = []
            for r in rets:
                v = r.value
                vn = [e.id if isinstance(e, ast.Name) else None for e in v.elts] if isinstance(v, ast.Tuple) else ([v.id] if isinstance(v, ast.Name) else [None])
                rows.append(vn)
            callee_names_all = _all_names(f.node)
            if all(len(r) == len(tnames) and None not in r for r in rows) and all(r == rows[0] for r in rows) and len(set(rows[0])) == len(rows[0]):
                okd = all(v_ not in params and v_ in callee_locals for v_ in rows[0]) and not (set(tnames) & (callee_names_all - set(rows[0])))
                # the caller's targets must not be passed in as arguments (the helper would then read them)
                arg_names = {n.id for a_ in list(call.args) + [k_.value for k_ in call.keywords] for n in ast.walk(a_) if isinstance(n, ast.Name)}
                if okd and not (set(tnames) & arg_names):
                    direct = dict(zip(rows[0], tnames))
    for nm in sorted(callee_locals - set(params)):
        if nm in direct:
            names[nm] = direct[nm]
            continue
        names[nm] = fresh(nm)
    new_body = [_Renamer(names, subst).visit(copy.deepcopy(s)) for s in body]
    tmp = None
    tail_return = False
    if kind == "assign":
        def on_return(v):
            if isinstance(v, ast.Name) and len(stmt.targets) == 1 and isinstance(stmt.targets[0], ast.Name) and stmt.targets[0].id == v.id:
                return []  # x = x
            if isinstance(v, ast.Tuple) and len(stmt.targets) == 1 and isinstance(stmt.targets[0], ast.Tuple) and len(v.elts) == len(stmt.targets[0].elts) \
                    and all(isinstance(a_, ast.Name) and isinstance(b_, ast.Name) and a_.id == b_.id for a_, b_ in zip(v.elts, stmt.targets[0].elts)):
                return []  # a, b = (a, b)
            if isinstance(v, ast.Tuple) and len(stmt.targets) == 1 and isinstance(stmt.targets[0], ast.Tuple) and len(v.elts) == len(stmt.targets[0].elts):
                # drop the identity components of a tuple return (``x, y = (x1, y)`` -> ``x = x1``) when that cannot change
                # the result: no remaining target is read by a remaining value
                pairs = [(t_, v_) for t_, v_ in zip(stmt.targets[0].elts, v.elts) if not (isinstance(t_, ast.Name) and isinstance(v_, ast.Name) and t_.id == v_.id)]
                if len(pairs) < len(v.elts) and all(isinstance(t_, ast.Name) for t_, _v in pairs):
                    tnames_ = {t_.id for t_, _v in pairs}
                    if not any(isinstance(n_, ast.Name) and n_.id in tnames_ for _t, v_ in pairs for n_ in ast.walk(v_)):
                        outl = []
                        for t_, v_ in pairs:
                            a1 = ast.Assign(targets=[copy.deepcopy(t_)], value=v_)
                            ast.copy_location(a1, stmt)
                            outl.append(a1)
                        return outl
            a_ = ast.Assign(targets=[copy.deepcopy(t) for t in stmt.targets], value=v if v is not None else ast.Constant(value=None))
            ast.copy_location(a_, stmt)
            return [a_]
    elif kind == "expr":
        def on_return(v):
            if v is not None and _contains(v, ast.Call):
                e = ast.Expr(value=v)
                ast.copy_location(e, stmt)
                return [e]
            return []
    elif kind == "temp" and isinstance(stmt, ast.Return) and stmt.value is not None and (
        stmt.value is call or (isinstance(stmt.value, ast.Tuple) and any(e is call for e in stmt.value.elts) and all(e is call or isinstance(e, (ast.Name, ast.Constant)) for e in stmt.value.elts))
    ):
        # ``return a, helper(..)``: every exit of the helper becomes an exit of the caller with the helper's value in place
        # (the other components are plain names / constants, which the helper's renamed locals cannot change)
        tail_return = True

        def on_return(v):
            call._tail_mark = True
            try:
                r = copy.deepcopy(stmt)
            finally:
                del call._tail_mark
            val = v if v is not None else ast.Constant(value=None)
            if getattr(r.value, "_tail_mark", False):
                r.value = val
            else:
                r.value.elts = [val if getattr(e, "_tail_mark", False) else e for e in r.value.elts]
            return [r]
    else:
        tmp = fresh("ret_" + f.name.strip("_"))

        def on_return(v):
            a_ = ast.Assign(targets=[ast.Name(id=tmp, ctx=ast.Store())], value=v if v is not None else ast.Constant(value=None))
            ast.copy_location(a_, stmt)
            return [a_]
    flat, all_ret = _single_exit(new_body, on_return)
    if tail_return:
        if not all_ret:
            flat = flat + on_return(None)
    elif not all_ret and kind != "expr":
        # a path that reaches the end of the helper without a return yields None: the target gets None first, the
        # returning paths overwrite it
        flat = on_return(None) + flat
    origin = (f.module.relpath, f.qualname)
    for s in flat:
        for n in ast.walk(s):
            if not hasattr(n, "_inl"):
                n._inl = origin
            if not hasattr(n, "lineno") and isinstance(n, (ast.stmt, ast.expr)):
                n.lineno, n.col_offset = stmt.lineno, stmt.col_offset
    for s in pre:
        for n in ast.walk(s):
            n._inl = origin
    blk = _block_of(prog, stmt)
    idx = next(i for i, x in enumerate(blk) if x is stmt)
    if kind in ("assign", "expr") or tail_return:
        blk[idx:idx + 1] = pre + flat
    else:
        # replace the call by the temporary inside the statement (or its test)
        class R(ast.NodeTransformer):
            def visit_Call(self, node):
                if node is call:
                    nn = ast.Name(id=tmp, ctx=ast.Load())
                    return ast.copy_location(nn, node)
                return self.generic_visit(node)

        if kind == "iftest":
            stmt.test = R().visit(stmt.test)
        else:
            R().visit(stmt)
        blk[idx:idx] = pre + flat
    for s in pre + flat:
        ast.fix_missing_locations(s)


def _items_loop_wrapper(f: FunctionInfo):
    """``def w(self, d, i): <raising guards>; for k, v in d.items(): <raising guards / else:> self.m(k, v, i)``
    -> (dict parameter, method name, argument template) or None."""
    params = [a.arg for a in f.node.args.args]
    if len(params) < 2 or params[0] != "self":
        return None
    loops = [s_ for s_ in f.node.body if isinstance(s_, ast.For)]
    if len(loops) != 1:
        return None
    others = [s_ for s_ in f.node.body if not isinstance(s_, ast.For) and not (isinstance(s_, ast.Expr) and isinstance(s_.value, ast.Constant))]
    # every other statement is a guard that only raises
    for s_ in others:
        if not (isinstance(s_, ast.If) and all(isinstance(x, ast.Raise) for x in s_.body) and not s_.orelse):
            return None
    lp = loops[0]
    it = lp.iter
    if not (isinstance(it, ast.Call) and isinstance(it.func, ast.Attribute) and it.func.attr == "items" and isinstance(it.func.value, ast.Name) and it.func.value.id in params):
        return None
    if not (isinstance(lp.target, ast.Tuple) and len(lp.target.elts) == 2 and all(isinstance(e, ast.Name) for e in lp.target.elts)):
        return None
    kname, vname = lp.target.elts[0].id, lp.target.elts[1].id
    calls = [n for n in ast.walk(lp) if isinstance(n, ast.Call) and isinstance(n.func, ast.Attribute) and isinstance(n.func.value, ast.Name) and n.func.value.id == "self"]
    if len(calls) != 1 or calls[0].keywords:
        return None
    # anything else in the loop body must be a raising guard
    for n in ast.walk(lp):
        if isinstance(n, (ast.Assign, ast.AugAssign, ast.Return, ast.Break, ast.Continue)):
            return None
    c = calls[0]
    tmpl = []
    for a in c.args:
        if isinstance(a, ast.Name) and a.id == kname:
            tmpl.append("K")
        elif isinstance(a, ast.Name) and a.id == vname:
            tmpl.append("V")
        elif isinstance(a, ast.Name) and a.id in params:
            tmpl.append(("P", a.id))
        else:
            return None
    return it.func.value.id, c.func.attr, tmpl


def expand_dict_wrappers(prog: Program) -> List[str]:
    """``h.record_iteration({"u": a, "fval": b}, i)`` -> ``h.record("u", a, i); h.record("fval", b, i)`` when the wrapper is a
    package method that does nothing but loop over ``dict.items()`` and forward (key, value, ...) to another method of the
    same object (its raising guards aside).  The rules read the individual calls."""
    done = []
    for caller in list(prog.functions()):
        for call, targets in prog.calls_in(caller):
            fs = [t for t in targets if isinstance(t, FunctionInfo)]
            if len(fs) != 1 or len(targets) != 1:
                continue
            w = _items_loop_wrapper(fs[0])
            if w is None:
                continue
            dparam, meth, tmpl = w
            b = bind_args(fs[0], call)
            d = b.get(dparam)
            dict_stmt = None
            if isinstance(d, ast.Name):
                # the literal built in a local that has no other use: rec = {...}; h.record_iteration(rec, i)
                uses = [n for n in ast.walk(caller.node) if isinstance(n, ast.Name) and n.id == d.id]
                defs_ = [n for n in ast.walk(caller.node) if isinstance(n, ast.Assign) and len(n.targets) == 1 and isinstance(n.targets[0], ast.Name) and n.targets[0].id == d.id]
                if len(uses) == 2 and len(defs_) == 1 and isinstance(defs_[0].value, ast.Dict):
                    dict_stmt = defs_[0]
                    d = defs_[0].value
            st = prog.parent(call)
            if not (isinstance(d, ast.Dict) and all(isinstance(k_, ast.Constant) for k_ in d.keys) and isinstance(st, ast.Expr) and st.value is call and isinstance(call.func, ast.Attribute)):
                continue
            blk = _block_of(prog, st)
            if blk is None:
                continue
            new = []
            for k_, v_ in zip(d.keys, d.values):
                args = []
                for t_ in tmpl:
                    if t_ == "K":
                        args.append(copy.deepcopy(k_))
                    elif t_ == "V":
                        args.append(v_)
                    else:
                        a_ = b.get(t_[1])
                        if a_ is None:
                            args = None
                            break
                        args.append(copy.deepcopy(a_))
                if args is None:
                    new = None
                    break
                c2 = ast.Call(func=ast.Attribute(value=copy.deepcopy(call.func.value), attr=meth, ctx=ast.Load()), args=args, keywords=[])
                e2 = ast.Expr(value=c2)
                ast.copy_location(e2, st)
                ast.copy_location(c2, v_)
                new.append(e2)
            if not new:
                continue
            idx = next(i for i, x in enumerate(blk) if x is st)
            blk[idx:idx + 1] = new
            if dict_stmt is not None:
                dblk = _block_of(prog, dict_stmt)
                if dblk is not None:
                    dblk[:] = [x for x in dblk if x is not dict_stmt]
            for e2 in new:
                ast.fix_missing_locations(e2)
            done.append(f"{caller.qualname}: {fs[0].name}({{...{len(new)} keys}}) expanded into {meth} calls")
    return done


def unroll_literal_generators(fn_node) -> int:
    """``any(P(b) for b in (x, y, z))`` -> ``P(x) or P(y) or P(z)`` (``all`` -> ``and``), also when the tuple is held in a
    local with a single literal definition.  Evaluation order and short-circuiting are the same."""
    tuple_defs: Dict[str, list] = {}
    for n in ast.walk(fn_node):
        if isinstance(n, ast.Assign) and len(n.targets) == 1 and isinstance(n.targets[0], ast.Name):
            tuple_defs.setdefault(n.targets[0].id, []).append(n.value)
    count = [0]

    class Sub(ast.NodeTransformer):
        def __init__(self, name, repl):
            self.name, self.repl = name, repl

        def visit_Name(self, node):
            if node.id == self.name and isinstance(node.ctx, ast.Load):
                return copy.deepcopy(self.repl)
            return node

    class U(ast.NodeTransformer):
        def visit_Call(self, node):
            self.generic_visit(node)
            if isinstance(node.func, ast.Name) and node.func.id in ("any", "all") and len(node.args) == 1 and not node.keywords and isinstance(node.args[0], ast.GeneratorExp):
                ge = node.args[0]
                if len(ge.generators) == 1 and not ge.generators[0].ifs and isinstance(ge.generators[0].target, ast.Name):
                    it = ge.generators[0].iter
                    if isinstance(it, ast.Name) and len(tuple_defs.get(it.id, [])) == 1:
                        it = tuple_defs[it.id][0]
                    if isinstance(it, (ast.Tuple, ast.List)) and 1 <= len(it.elts) <= 8 and not any(isinstance(e, ast.Starred) for e in it.elts):
                        parts = [Sub(ge.generators[0].target.id, e).visit(copy.deepcopy(ge.elt)) for e in it.elts]
                        new = parts[0] if len(parts) == 1 else ast.BoolOp(op=ast.Or() if node.func.id == "any" else ast.And(), values=parts)
                        count[0] += 1
                        return ast.copy_location(new, node)
            return node

    U().visit(fn_node)
    if count[0]:
        ast.fix_missing_locations(fn_node)
    return count[0]


def unroll_literal_for_loops(fn_node) -> int:
    """``for b in (self.lb, self.ub): b[m] = f(b[m])`` / ``for k, b in enumerate((..))``: one copy of the (short) body per
    element with the loop variable replaced.  Only when the elements denote the same object every time they are evaluated,
    the body neither re-binds the variable nor leaves the loop early, and the variable is dead outside the loop."""
    from .aggregates import _same_object_each_time

    count = 0
    all_names: Dict[str, int] = {}
    for n in ast.walk(fn_node):
        if isinstance(n, ast.Name):
            all_names[n.id] = all_names.get(n.id, 0) + 1

    class Sub(ast.NodeTransformer):
        def __init__(self, m):
            self.m = m

        def visit_Name(self, node):
            if node.id in self.m and isinstance(node.ctx, ast.Load):
                return ast.copy_location(copy.deepcopy(self.m[node.id]), node)
            return node

    for node in ast.walk(fn_node):
        for fld in ("body", "orelse", "finalbody"):
            blk = getattr(node, fld, None)
            if not (isinstance(blk, list) and blk and isinstance(blk[0], ast.stmt)):
                continue
            i = 0
            while i < len(blk):
                st = blk[i]
                i += 1
                if not isinstance(st, ast.For) or st.orelse:
                    continue
                it, tgt = st.iter, st.target
                kvar = None
                if isinstance(it, ast.Call) and isinstance(it.func, ast.Name) and it.func.id == "enumerate" and len(it.args) == 1 and not it.keywords \
                        and isinstance(tgt, ast.Tuple) and len(tgt.elts) == 2 and all(isinstance(e, ast.Name) for e in tgt.elts):
                    kvar, var, it = tgt.elts[0].id, tgt.elts[1].id, it.args[0]
                elif isinstance(tgt, ast.Name):
                    var = tgt.id
                else:
                    continue
                if not (isinstance(it, (ast.Tuple, ast.List)) and 1 <= len(it.elts) <= 8):
                    continue
                own_vars = False
                if not all(_same_object_each_time(e) for e in it.elts):
                    # elements that compute something (``x.copy()``) are evaluated once each, into the copy's own variable;
                    # they must be read-only and must not read anything the body writes (they were all evaluated up front)
                    from .aggregates import _read_only as _ro

                    if not all(_ro(e) for e in it.elts):
                        continue
                    reads_ = {ast.unparse(n) for e in it.elts for n in ast.walk(e) if isinstance(n, (ast.Name, ast.Attribute))}
                    writes_ = {ast.unparse(n) for s_ in st.body for n in ast.walk(s_) if isinstance(n, (ast.Name, ast.Attribute, ast.Subscript)) and not isinstance(getattr(n, "ctx", None), ast.Load)}
                    writes_ |= {ast.unparse(n.value) for s_ in st.body for n in ast.walk(s_) if isinstance(n, ast.Subscript) and not isinstance(n.ctx, ast.Load)}
                    if reads_ & writes_:
                        continue
                    own_vars = True
                body_nodes = [n for s_ in st.body for n in ast.walk(s_)]
                if len(st.body) > 6 or any(isinstance(n, (ast.Break, ast.Continue, ast.Return, ast.Lambda, ast.FunctionDef, ast.Yield)) for n in body_nodes):
                    continue
                loop_vars = {var} | ({kvar} if kvar else set())
                rebinds = own_vars or any(isinstance(n, ast.Name) and n.id == var and not isinstance(n.ctx, ast.Load) for n in body_nodes)
                if kvar and any(isinstance(n, ast.Name) and n.id == kvar and not isinstance(n.ctx, ast.Load) for n in body_nodes):
                    continue
                inside = sum(1 for n in body_nodes if isinstance(n, ast.Name) and n.id in loop_vars) + len(loop_vars)
                if sum(all_names.get(v_, 0) for v_ in loop_vars) != inside:
                    continue  # read after the loop
                new = []
                temps = _body_temporaries(fn_node, st)
                taken_names = set(all_names)
                for k_, e in enumerate(it.elts):
                    m = {var: e}
                    if kvar:
                        m[kvar] = ast.Constant(value=k_)
                    if rebinds:
                        # the body re-binds the loop variable (``if np.isscalar(b): b = b * ones``): each copy works on its
                        # own variable initialised with the element
                        own = f"{var}__u{k_ + 1}"
                        while own in taken_names:
                            own += "_"
                        taken_names.add(own)
                        m.pop(var)
                        body_k = [Sub(m).visit(copy.deepcopy(s_)) for s_ in st.body]
                        _rename_names(body_k, {var: own})
                        one = [ast.copy_location(ast.Assign(targets=[ast.Name(id=own, ctx=ast.Store())], value=copy.deepcopy(e)), st)] + body_k
                    else:
                        one = [Sub(m).visit(copy.deepcopy(s_)) for s_ in st.body]
                    if k_ > 0 and temps:
                        ren = {}
                        for t_ in temps:
                            nn = f"{t_}__u{k_ + 1}"
                            while nn in taken_names:
                                nn += "_"
                            taken_names.add(nn)
                            ren[t_] = nn
                        _rename_names(one, ren)
                    new += one
                blk[i - 1:i] = new
                i += len(new) - 1
                count += 1
    if count:
        ast.fix_missing_locations(fn_node)
    return count


def _body_temporaries(fn_node, loop) -> Set[str]:
    """names that live inside one iteration of ``loop`` only: first touched by a top-level store of the body and never
    mentioned outside the loop (each unrolled copy may therefore use its own name)"""
    inside = {id(n) for n in ast.walk(loop)}
    out: Set[str] = set()
    first: Dict[str, str] = {}
    for st in loop.body:
        tgt_names = set()
        if isinstance(st, ast.Assign):
            # the value is evaluated before the targets are bound
            for n in ast.walk(st.value):
                if isinstance(n, ast.Name):
                    first.setdefault(n.id, "load")
            for t in st.targets:
                if isinstance(t, ast.Name):
                    first.setdefault(t.id, "store")
                else:
                    for n in ast.walk(t):
                        if isinstance(n, ast.Name):
                            first.setdefault(n.id, "load")
        else:
            for n in ast.walk(st):
                if isinstance(n, ast.Name):
                    first.setdefault(n.id, "load" if isinstance(n.ctx, ast.Load) else "other")
    for nm, kind in first.items():
        if kind != "store":
            continue
        if any(isinstance(n, ast.Name) and n.id == nm and id(n) not in inside for n in ast.walk(fn_node)):
            continue
        out.add(nm)
    return out


def _rename_names(stmts, mapping: Dict[str, str]):
    for s_ in stmts:
        for n in ast.walk(s_):
            if isinstance(n, ast.Name) and n.id in mapping:
                n.id = mapping[n.id]


def static_attr_access(fn_node) -> int:
    """``getattr(o, "name")`` -> ``o.name``; the statement ``setattr(o, "name", v)`` -> ``o.name = v`` (literal names)."""
    count = [0]

    def fold(e):
        """'orig_' + 'lb' / f"orig_{'lb'}" -> 'orig_lb' (attribute names assembled from constants)"""
        if isinstance(e, ast.BinOp) and isinstance(e.op, ast.Add):
            l, r = fold(e.left), fold(e.right)
            if isinstance(l, ast.Constant) and isinstance(r, ast.Constant) and isinstance(l.value, str) and isinstance(r.value, str):
                return ast.copy_location(ast.Constant(value=l.value + r.value), e)
        if isinstance(e, ast.JoinedStr):
            parts = []
            for v in e.values:
                if isinstance(v, ast.Constant) and isinstance(v.value, str):
                    parts.append(v.value)
                elif isinstance(v, ast.FormattedValue) and isinstance(v.value, ast.Constant) and isinstance(v.value.value, str) and v.format_spec is None and v.conversion == -1:
                    parts.append(v.value.value)
                else:
                    return e
            return ast.copy_location(ast.Constant(value="".join(parts)), e)
        return e

    def ident(e):
        return isinstance(e, ast.Constant) and isinstance(e.value, str) and e.value.isidentifier()

    class G(ast.NodeTransformer):
        def visit_Call(self, node):
            self.generic_visit(node)
            if isinstance(node.func, ast.Name) and node.func.id in ("getattr", "setattr") and len(node.args) >= 2:
                node.args[1] = fold(node.args[1])
            if isinstance(node.func, ast.Name) and node.func.id == "getattr" and len(node.args) == 2 and not node.keywords and ident(node.args[1]):
                count[0] += 1
                return ast.copy_location(ast.Attribute(value=node.args[0], attr=node.args[1].value, ctx=ast.Load()), node)
            return node

        def visit_Expr(self, node):
            self.generic_visit(node)
            c = node.value
            if isinstance(c, ast.Call) and isinstance(c.func, ast.Name) and c.func.id == "setattr" and len(c.args) == 3 and not c.keywords and ident(c.args[1]):
                count[0] += 1
                return ast.copy_location(ast.Assign(targets=[ast.Attribute(value=c.args[0], attr=c.args[1].value, ctx=ast.Store())], value=c.args[2]), node)
            return node

    G().visit(fn_node)
    if count[0]:
        ast.fix_missing_locations(fn_node)
    return count[0]


def unroll_built_list_loops(fn_node) -> int:
    """``L = [a, b]; if c: L.append(x); L.append(y); for v in L: body`` (L used for nothing else): the body once per
    element, the copies for a conditionally appended element under that condition.  Elements are constants / names /
    attribute chains (or tuples of those, unpacked by the loop target); the conditions are read-only and cannot be
    changed by the loop body."""
    from .aggregates import _read_only, _same_object_each_time

    def elem_ok(e):
        # read-only expressions that are not plain references are bound to a temporary of their copy
        if isinstance(e, ast.Tuple):
            return all(_same_object_each_time(x) or _read_only(x) for x in e.elts)
        return _same_object_each_time(e) or _read_only(e)

    count = 0
    for node in ast.walk(fn_node):
        for fld in ("body", "orelse", "finalbody"):
            blk = getattr(node, fld, None)
            if not (isinstance(blk, list) and blk and isinstance(blk[0], ast.stmt)):
                continue
            for li, loop in enumerate(blk):
                if not (isinstance(loop, ast.For) and not loop.orelse):
                    continue
                is_dict = False
                if isinstance(loop.iter, ast.Name):
                    L = loop.iter.id
                elif isinstance(loop.iter, ast.Call) and isinstance(loop.iter.func, ast.Attribute) and loop.iter.func.attr == "items" and not loop.iter.args \
                        and isinstance(loop.iter.func.value, ast.Name):
                    L, is_dict = loop.iter.func.value.id, True  # for k, v in D.items() with D built from literals
                else:
                    continue
                occ = [n for n in ast.walk(fn_node) if isinstance(n, ast.Name) and n.id == L]
                # find the literal definition in this block before the loop
                di = next((i for i in range(li) if isinstance(blk[i], ast.Assign) and len(blk[i].targets) == 1 and isinstance(blk[i].targets[0], ast.Name)
                           and blk[i].targets[0].id == L and isinstance(blk[i].value, ast.Dict if is_dict else ast.List)), None)
                if di is None:
                    continue
                if is_dict:
                    dv = blk[di].value
                    if not all(isinstance(k_, ast.Constant) for k_ in dv.keys):
                        continue
                    segments = [(None, [ast.Tuple(elts=[k_, v_], ctx=ast.Load()) for k_, v_ in zip(dv.keys, dv.values)])]
                else:
                    segments = [(None, list(blk[di].value.elts))]
                used = 2  # the definition and the loop's iter
                builders = [blk[di]]
                ok = True

                def append_of(st):
                    if is_dict:
                        # D["key"] = value (a key not yet present keeps insertion order)
                        if isinstance(st, ast.Assign) and len(st.targets) == 1 and isinstance(st.targets[0], ast.Subscript) and isinstance(st.targets[0].value, ast.Name) \
                                and st.targets[0].value.id == L and isinstance(st.targets[0].slice, ast.Constant):
                            return ast.Tuple(elts=[st.targets[0].slice, st.value], ctx=ast.Load())
                        return None
                    if isinstance(st, ast.Expr) and isinstance(st.value, ast.Call) and isinstance(st.value.func, ast.Attribute) and st.value.func.attr == "append" \
                            and isinstance(st.value.func.value, ast.Name) and st.value.func.value.id == L and len(st.value.args) == 1 and not st.value.keywords:
                        return st.value.args[0]
                    return None

                for st in blk[di + 1:li]:
                    a = append_of(st)
                    if a is not None:
                        segments.append((None, [a]))
                        builders.append(st)
                        used += 1
                        continue
                    if isinstance(st, ast.If) and not st.orelse and all(append_of(x) is not None for x in st.body) and _read_only(st.test):
                        segments.append((st.test, [append_of(x) for x in st.body]))
                        builders.append(st)
                        used += len(st.body)
                        continue
                    if any(isinstance(n, ast.Name) and n.id == L for n in ast.walk(st)):
                        ok = False
                        break
                if not ok or used != len(occ):
                    continue
                elems = [e for _c, es in segments for e in es]
                if not elems or len(elems) > 12 or not all(elem_ok(e) for e in elems):
                    continue
                if is_dict and len({e.elts[0].value for e in elems}) != len(elems):
                    continue  # a key assigned twice keeps its first position: not modelled
                tgt = loop.target
                if isinstance(tgt, ast.Name):
                    tnames = [tgt.id]
                elif isinstance(tgt, ast.Tuple) and all(isinstance(x, ast.Name) for x in tgt.elts) and all(isinstance(e, ast.Tuple) and len(e.elts) == len(tgt.elts) for e in elems):
                    tnames = [x.id for x in tgt.elts]
                else:
                    continue
                body_nodes = [n for s_ in loop.body for n in ast.walk(s_)]
                if len(loop.body) > 6 or any(isinstance(n, (ast.Break, ast.Continue, ast.Return, ast.Lambda, ast.FunctionDef, ast.Yield)) for n in body_nodes):
                    continue
                if any(isinstance(n, ast.Name) and n.id in tnames and not isinstance(n.ctx, ast.Load) for n in body_nodes):
                    continue
                all_occ = sum(1 for n in ast.walk(fn_node) if isinstance(n, ast.Name) and n.id in tnames)
                inside = sum(1 for n in body_nodes if isinstance(n, ast.Name) and n.id in tnames) + len(tnames)
                if all_occ != inside:
                    continue
                # what the conditions read must not be written by the statements that now run before them
                cond_paths = set()
                for c, _es in segments:
                    if c is not None:
                        cond_paths |= {ast.unparse(n) for n in ast.walk(c) if isinstance(n, (ast.Name, ast.Attribute))}

                def writes(stmts):
                    out = set()
                    for s_ in stmts:
                        for n in ast.walk(s_):
                            if isinstance(n, (ast.Name, ast.Attribute)) and not isinstance(n.ctx, ast.Load):
                                out.add(ast.unparse(n))
                    return out

                # after static_attr_access the body may store self.<name> for the substituted names: compute on the copies
                class Sub(ast.NodeTransformer):
                    def __init__(self, m):
                        self.m = m

                    def visit_Name(self, n2):
                        if n2.id in self.m and isinstance(n2.ctx, ast.Load):
                            return ast.copy_location(copy.deepcopy(self.m[n2.id]), n2)
                        return n2

                new = []
                temps = _body_temporaries(fn_node, loop)
                taken_names = {n.id for n in ast.walk(fn_node) if isinstance(n, ast.Name)}
                copy_no = 0
                cond_paths_extra: Set[str] = set()
                for c, es in segments:
                    chunk = []
                    for e in es:
                        m = {tnames[0]: e} if len(tnames) == 1 else dict(zip(tnames, e.elts))
                        copy_no += 1
                        pre_b = []
                        for nm_, ex_ in list(m.items()):
                            if not _same_object_each_time(ex_):
                                tmpn = f"{nm_}__u{copy_no}"
                                while tmpn in taken_names:
                                    tmpn += "_"
                                taken_names.add(tmpn)
                                pre_b.append(ast.copy_location(ast.Assign(targets=[ast.Name(id=tmpn, ctx=ast.Store())], value=copy.deepcopy(ex_)), loop))
                                m[nm_] = ast.Name(id=tmpn, ctx=ast.Load())
                                cond_paths_extra.update(ast.unparse(n) for n in ast.walk(ex_) if isinstance(n, (ast.Name, ast.Attribute)))
                        one = pre_b + [Sub(m).visit(copy.deepcopy(s_)) for s_ in loop.body]
                        if copy_no > 1 and temps:
                            ren = {}
                            for t_ in temps:
                                nn = f"{t_}__u{copy_no}"
                                while nn in taken_names:
                                    nn += "_"
                                taken_names.add(nn)
                                ren[t_] = nn
                            _rename_names(one, ren)
                        chunk += one
                    if c is not None:
                        new.append(ast.copy_location(ast.If(test=copy.deepcopy(c), body=chunk, orelse=[]), loop))
                    else:
                        new += chunk
                holder = ast.Module(body=new, type_ignores=[])
                static_attr_access(holder)
                new = holder.body
                between = [st for st in blk[di + 1:li] if not any(st is b for b in builders)]
                if (cond_paths | cond_paths_extra) & ((writes(new) - {n_ for n_ in writes(new) if "__u" in n_}) | writes(between)):
                    continue
                keep_before = [st for st in blk[:li] if not any(st is b for b in builders)]
                blk[:] = keep_before + new + blk[li + 1:]
                count += 1
                break
    if count:
        ast.fix_missing_locations(fn_node)
    return count


def _const_key_dicts(fn_node) -> Dict[str, List[str]]:
    """locals bound exactly once, to a dict literal with constant string keys, and otherwise only subscripted with constants
    / the variable of a loop over their ``.items()`` / iterated with ``.items()``: records in dict clothing"""
    out: Dict[str, List[str]] = {}
    stores: Dict[str, list] = {}
    parents = {}
    for p_ in ast.walk(fn_node):
        for c_ in ast.iter_child_nodes(p_):
            parents[id(c_)] = p_
    for n in ast.walk(fn_node):
        if isinstance(n, ast.Name) and not isinstance(n.ctx, ast.Load):
            stores.setdefault(n.id, []).append(n)
    for name, sts in stores.items():
        if len(sts) != 1:
            continue
        a = parents.get(id(sts[0]))
        if not (isinstance(a, ast.Assign) and len(a.targets) == 1 and a.targets[0] is sts[0] and isinstance(a.value, ast.Dict) and a.value.keys
                and all(isinstance(k, ast.Constant) and isinstance(k.value, str) and k.value.isidentifier() for k in a.value.keys)):
            continue
        keys = [k.value for k in a.value.keys]
        if len(set(keys)) != len(keys):
            continue
        ok = True
        for n in ast.walk(fn_node):
            if not (isinstance(n, ast.Name) and n.id == name and isinstance(n.ctx, ast.Load)):
                continue
            par = parents.get(id(n))
            if isinstance(par, ast.Subscript) and par.value is n:
                sl = par.slice
                if isinstance(sl, ast.Constant) and sl.value in keys:
                    continue
                if isinstance(sl, ast.Name):
                    # D[k] inside ``for k, v in D.items()``
                    lp = par
                    found = False
                    while id(lp) in parents:
                        lp = parents[id(lp)]
                        if isinstance(lp, ast.For) and isinstance(lp.target, ast.Tuple) and len(lp.target.elts) == 2 and isinstance(lp.target.elts[0], ast.Name) \
                                and lp.target.elts[0].id == sl.id and isinstance(lp.iter, ast.Call) and isinstance(lp.iter.func, ast.Attribute) and lp.iter.func.attr == "items" \
                                and isinstance(lp.iter.func.value, ast.Name) and lp.iter.func.value.id == name:
                            found = True
                            break
                    if found:
                        continue
                ok = False
                break
            if isinstance(par, ast.Attribute) and par.attr == "items" and isinstance(parents.get(id(par)), ast.Call) and isinstance(parents.get(id(parents[id(par)])), ast.For) \
                    and parents[id(parents[id(par)])].iter is parents[id(par)]:
                continue
            ok = False
            break
        if ok:
            out[name] = keys
    return out


def name_iterated_dict_literals(fn_node) -> int:
    """``for k, v in {<literal>}.items():`` -> ``fields__dN = {<literal>}`` followed by ``for k, v in fields__dN.items():`` -
    the dict literal is evaluated once, before the loop, either way; the named form is what the record-like dict passes
    recognise."""
    count = 0
    taken = {n.id for n in ast.walk(fn_node) if isinstance(n, ast.Name)}
    for node in ast.walk(fn_node):
        for fld in ("body", "orelse", "finalbody"):
            blk = getattr(node, fld, None)
            if not (isinstance(blk, list) and blk and isinstance(blk[0], ast.stmt)):
                continue
            i = 0
            while i < len(blk):
                st = blk[i]
                i += 1
                if not (isinstance(st, ast.For) and isinstance(st.iter, ast.Call) and isinstance(st.iter.func, ast.Attribute) and st.iter.func.attr == "items"
                        and not st.iter.args and isinstance(st.iter.func.value, ast.Dict) and st.iter.func.value.keys
                        and all(isinstance(k, ast.Constant) and isinstance(k.value, str) for k in st.iter.func.value.keys)):
                    continue
                count += 1
                nm = f"fields__d{count}"
                while nm in taken:
                    nm += "_"
                taken.add(nm)
                lit = st.iter.func.value
                st.iter.func.value = ast.copy_location(ast.Name(id=nm, ctx=ast.Load()), lit)
                blk.insert(i - 1, ast.copy_location(ast.Assign(targets=[ast.Name(id=nm, ctx=ast.Store())], value=lit), st))
                i += 1
    if count:
        ast.fix_missing_locations(fn_node)
    return count


def unroll_const_dict_loops(fn_node) -> int:
    """``for k, v in D.items(): body`` over a record-like dict (see _const_key_dicts): one copy of the body per key with
    k the key constant and v a per-copy local initialised from ``D[key]`` (the body may update ``D[k]``)."""
    dicts = _const_key_dicts(fn_node)
    if not dicts:
        return 0
    count = 0
    taken_names = {n.id for n in ast.walk(fn_node) if isinstance(n, ast.Name)}
    for node in ast.walk(fn_node):
        for fld in ("body", "orelse", "finalbody"):
            blk = getattr(node, fld, None)
            if not (isinstance(blk, list) and blk and isinstance(blk[0], ast.stmt)):
                continue
            i = 0
            while i < len(blk):
                st = blk[i]
                i += 1
                if not (isinstance(st, ast.For) and not st.orelse and isinstance(st.iter, ast.Call) and isinstance(st.iter.func, ast.Attribute) and st.iter.func.attr == "items"
                        and isinstance(st.iter.func.value, ast.Name) and st.iter.func.value.id in dicts and isinstance(st.target, ast.Tuple) and len(st.target.elts) == 2
                        and all(isinstance(e, ast.Name) for e in st.target.elts)):
                    continue
                D = st.iter.func.value.id
                kvar, vvar = st.target.elts[0].id, st.target.elts[1].id
                body_nodes = [n for s_ in st.body for n in ast.walk(s_)]
                if len(st.body) > 8 or any(isinstance(n, (ast.Break, ast.Continue, ast.Return, ast.Lambda, ast.FunctionDef, ast.Yield)) for n in body_nodes):
                    continue
                if any(isinstance(n, ast.Name) and n.id == kvar and not isinstance(n.ctx, ast.Load) for n in body_nodes):
                    continue
                # loop variables dead outside this loop (other loops may reuse the names: they re-bind them first)
                temps = _body_temporaries(fn_node, st)
                new = []
                for k_i, key in enumerate(dicts[D]):
                    own = f"{vvar}__u{count + 1}_{k_i + 1}"
                    while own in taken_names:
                        own += "_"
                    taken_names.add(own)
                    body_k = copy.deepcopy(st.body)
                    ren = {vvar: own}
                    for t_ in temps:
                        nn = f"{t_}__u{count + 1}_{k_i + 1}"
                        while nn in taken_names:
                            nn += "_"
                        taken_names.add(nn)
                        ren[t_] = nn

                    class Sub(ast.NodeTransformer):
                        def visit_Name(self, n2):
                            if n2.id == kvar and isinstance(n2.ctx, ast.Load):
                                return ast.copy_location(ast.Constant(value=key), n2)
                            return n2

                    body_k = [Sub().visit(s_) for s_ in body_k]
                    _rename_names(body_k, ren)
                    init = ast.Assign(targets=[ast.Name(id=own, ctx=ast.Store())], value=ast.Subscript(value=ast.Name(id=D, ctx=ast.Load()), slice=ast.Constant(value=key), ctx=ast.Load()))
                    new += [ast.copy_location(init, st)] + body_k
                holder = ast.Module(body=new, type_ignores=[])
                static_attr_access(holder)
                new = holder.body
                blk[i - 1:i] = new
                i += len(new) - 1
                count += 1
    if count:
        ast.fix_missing_locations(fn_node)
    return count


def flatten_const_dicts(fn_node) -> int:
    """a record-like dict (see _const_key_dicts) that is no longer iterated becomes one local per key."""
    dicts = _const_key_dicts(fn_node)
    count = 0
    for name, keys in dicts.items():
        if any(isinstance(n, ast.Attribute) and isinstance(n.value, ast.Name) and n.value.id == name for n in ast.walk(fn_node)):
            continue  # still iterated
        if any(isinstance(n, ast.Subscript) and isinstance(n.value, ast.Name) and n.value.id == name and not isinstance(n.slice, ast.Constant) for n in ast.walk(fn_node)):
            continue
        taken = {n.id for n in ast.walk(fn_node) if isinstance(n, ast.Name)}
        fld = {k: f"{name}__{k}" for k in keys}
        if any(v in taken for v in fld.values()):
            continue

        class Rw(ast.NodeTransformer):
            def visit_Subscript(self, node):
                self.generic_visit(node)
                if isinstance(node.value, ast.Name) and node.value.id == name and isinstance(node.slice, ast.Constant) and node.slice.value in fld:
                    return ast.copy_location(ast.Name(id=fld[node.slice.value], ctx=node.ctx), node)
                return node

            def visit_Assign(self, node):
                if len(node.targets) == 1 and isinstance(node.targets[0], ast.Name) and node.targets[0].id == name and isinstance(node.value, ast.Dict):
                    return [ast.copy_location(ast.Assign(targets=[ast.Name(id=fld[k.value], ctx=ast.Store())], value=self.visit(v)), node) for k, v in zip(node.value.keys, node.value.values)]
                return self.generic_visit(node)

        Rw().visit(fn_node)
        count += 1
    if count:
        ast.fix_missing_locations(fn_node)
    return count


def _dotted_name(e) -> Optional[str]:
    from .terms import dotted

    return dotted(e)


def split_elementwise_unpack(fn_node) -> int:
    """``a, b, c = np.atleast_2d(x, y, z)`` (numpy returns one array per argument) -> ``a = np.atleast_2d(x)`` ... when the
    targets are plain names and no target is read by a later argument (the call evaluates all arguments first)."""
    count = 0
    for node in ast.walk(fn_node):
        for fld in ("body", "orelse", "finalbody"):
            blk = getattr(node, fld, None)
            if not (isinstance(blk, list) and blk and isinstance(blk[0], ast.stmt)):
                continue
            i = 0
            while i < len(blk):
                st = blk[i]
                i += 1
                if not (isinstance(st, ast.Assign) and len(st.targets) == 1 and isinstance(st.targets[0], (ast.Tuple, ast.List)) and isinstance(st.value, ast.Call)
                        and _dotted_name(st.value.func) in ("np.atleast_1d", "np.atleast_2d", "np.atleast_3d", "numpy.atleast_2d", "numpy.atleast_1d") and not st.value.keywords):
                    continue
                tg, args = st.targets[0].elts, st.value.args
                if len(tg) != len(args) or len(tg) < 2 or not all(isinstance(t, ast.Name) for t in tg) or any(isinstance(a, ast.Starred) for a in args):
                    continue
                ok = True
                for k, t in enumerate(tg):
                    for a in args[k + 1:]:
                        if any(isinstance(n, ast.Name) and n.id == t.id for n in ast.walk(a)):
                            ok = False
                if not ok:
                    continue
                new = [ast.copy_location(ast.Assign(targets=[t], value=ast.Call(func=copy.deepcopy(st.value.func), args=[a], keywords=[])), st) for t, a in zip(tg, args)]
                blk[i - 1:i] = new
                i += len(new) - 1
                count += 1
    if count:
        ast.fix_missing_locations(fn_node)
    return count


def split_parallel_assign(fn_node) -> int:
    """``a, self.b, c = (x, y, z)`` (a literal tuple of the same length on the right) -> one assignment per target, in order,
    when that is the same thing: no target is read by a later right-hand element, targets are names or attributes of names,
    and - unless all targets are local names - the right-hand elements contain no call (a callee could observe the order)."""
    count = 0
    for node in ast.walk(fn_node):
        for fld in ("body", "orelse", "finalbody"):
            blk = getattr(node, fld, None)
            if not (isinstance(blk, list) and blk and isinstance(blk[0], ast.stmt)):
                continue
            i = 0
            while i < len(blk):
                st = blk[i]
                i += 1
                if not (isinstance(st, ast.Assign) and len(st.targets) == 1 and isinstance(st.targets[0], (ast.Tuple, ast.List)) and isinstance(st.value, (ast.Tuple, ast.List))):
                    continue
                tg, vals = st.targets[0].elts, st.value.elts
                if len(tg) != len(vals) or len(tg) < 2 or any(isinstance(x, ast.Starred) for x in list(tg) + list(vals)):
                    continue
                if not all(isinstance(t, ast.Name) or (isinstance(t, ast.Attribute) and isinstance(t.value, ast.Name)) for t in tg):
                    continue
                all_names = all(isinstance(t, ast.Name) for t in tg)
                if not all_names and any(isinstance(n, (ast.Call, ast.Await, ast.Yield)) for v in vals for n in ast.walk(v)):
                    continue
                ok = True
                for k, t in enumerate(tg):
                    tt = ast.unparse(t)
                    base = t.id if isinstance(t, ast.Name) else None
                    for v in vals[k + 1:]:
                        for n in ast.walk(v):
                            if isinstance(n, (ast.Name, ast.Attribute)) and ast.unparse(n) == tt:
                                ok = False
                            if base is not None and isinstance(n, ast.Name) and n.id == base:
                                ok = False
                if not ok:
                    continue
                new = [ast.copy_location(ast.Assign(targets=[t], value=v), st) for t, v in zip(tg, vals)]
                blk[i - 1:i] = new
                i += len(new) - 1
                count += 1
    if count:
        ast.fix_missing_locations(fn_node)
    return count


def fold_constant_tests(fn_node) -> int:
    """``if True: S`` -> S, ``if False: S else: T`` -> T, ``a if True else b`` -> a, and ``True and x`` / ``not False`` inside
    a test folded first: the shape a constant keyword argument (``move=True``) leaves behind once its helper is inlined."""
    count = 0

    def truth(e):
        if isinstance(e, ast.Constant) and (isinstance(e.value, (bool, int, float, str)) or e.value is None):
            return bool(e.value)
        return None

    class F(ast.NodeTransformer):
        def visit_UnaryOp(self, node):
            self.generic_visit(node)
            if isinstance(node.op, ast.Not):
                t = truth(node.operand)
                if t is not None and isinstance(node.operand.value, bool):
                    return ast.copy_location(ast.Constant(value=not t), node)
            return node

        def visit_IfExp(self, node):
            self.generic_visit(node)
            t = truth(node.test)
            if t is not None:
                nonlocal count
                count += 1
                return node.body if t else node.orelse
            return node

    def fold_test(test):
        """boolean operators with constant bool operands, in a *test* position only (the value of ``True and x`` is x)"""
        test = F().visit(test)
        if isinstance(test, ast.BoolOp):
            vals = [fold_test(v) for v in test.values]
            is_and = isinstance(test.op, ast.And)
            kept = []
            for v in vals:
                t = truth(v) if isinstance(v, ast.Constant) and isinstance(v.value, bool) else None
                if t is None:
                    kept.append(v)
                elif t != is_and:
                    # ``False and ...`` / ``True or ...``: decided if nothing with an effect stands before it
                    if not kept:
                        return ast.copy_location(ast.Constant(value=t), test)
                    kept.append(v)
            if not kept:
                return ast.copy_location(ast.Constant(value=is_and), test)
            if len(kept) == 1:
                return kept[0]
            test.values = kept
        return test

    def walk_block(blk):
        nonlocal count
        i = 0
        while i < len(blk):
            st = blk[i]
            for fld in ("body", "orelse", "finalbody"):
                sub = getattr(st, fld, None)
                if isinstance(sub, list) and sub and isinstance(sub[0], ast.stmt) and not isinstance(st, (ast.FunctionDef, ast.AsyncFunctionDef, ast.ClassDef)):
                    walk_block(sub)
            for h in getattr(st, "handlers", []) or []:
                walk_block(h.body)
            if isinstance(st, (ast.If, ast.While)):
                st.test = fold_test(st.test)
            if isinstance(st, ast.If):
                t = truth(st.test) if isinstance(st.test, ast.Constant) and isinstance(st.test.value, bool) else None
                if t is not None:
                    repl = st.body if t else st.orelse
                    blk[i : i + 1] = repl
                    count += 1
                    i += len(repl)
                    continue
            i += 1

    # expression-level folds first (IfExp with a constant test anywhere)
    for st in list(fn_node.body):
        F().visit(st)
    walk_block(fn_node.body)
    if not fn_node.body:
        fn_node.body.append(ast.Pass())
    for n in ast.walk(fn_node):
        for fld in ("body",):
            sub = getattr(n, fld, None)
            if isinstance(sub, list) and not sub and isinstance(n, (ast.If, ast.For, ast.While, ast.With, ast.Try)):
                sub.append(ast.Pass())
    if count:
        ast.fix_missing_locations(fn_node)
    return count


def flip_empty_branches(fn_node) -> int:
    """``if c: pass else: S`` -> ``if not c: S``; an ``else: pass`` is dropped (left behind by single-exit conversion)."""
    count = 0
    for n in ast.walk(fn_node):
        if isinstance(n, ast.If):
            if n.orelse and all(isinstance(x, ast.Pass) for x in n.orelse):
                n.orelse = []
                count += 1
            if n.orelse and n.body and all(isinstance(x, ast.Pass) for x in n.body):
                n.test = ast.copy_location(ast.UnaryOp(op=ast.Not(), operand=n.test), n.test)
                n.body, n.orelse = n.orelse, []
                count += 1
    if count:
        ast.fix_missing_locations(fn_node)
    return count


def beta_reduce_local_lambdas(fn_node) -> int:
    """``ok = lambda a, b: <expr>`` bound once in the function and only ever *called* there (never passed on, returned or
    stored): each call ``ok(x, y)`` is replaced by the expression with the arguments in place.  The free variables of a
    lambda are read when it is called, exactly as the substituted expression reads them; arguments must be read-only
    expressions because they may be evaluated at a different position or more than once."""
    from .aggregates import _read_only

    count = 0
    defs: Dict[str, List[ast.Assign]] = {}
    stores: Dict[str, int] = {}
    for n in ast.walk(fn_node):
        if isinstance(n, ast.Name) and not isinstance(n.ctx, ast.Load):
            stores[n.id] = stores.get(n.id, 0) + 1
        if isinstance(n, ast.Assign) and len(n.targets) == 1 and isinstance(n.targets[0], ast.Name) and isinstance(n.value, ast.Lambda):
            defs.setdefault(n.targets[0].id, []).append(n)
    for name, ds in defs.items():
        if len(ds) != 1 or stores.get(name) != 1:
            continue
        lam = ds[0].value
        a = lam.args
        if a.vararg or a.kwarg or a.kwonlyargs or a.posonlyargs or a.defaults:
            continue
        params = [x.arg for x in a.args]
        if any(isinstance(n, (ast.Lambda, ast.ListComp, ast.GeneratorExp, ast.SetComp, ast.DictComp, ast.NamedExpr)) for n in ast.walk(lam.body)):
            continue
        loads = [n for n in ast.walk(fn_node) if isinstance(n, ast.Name) and n.id == name and isinstance(n.ctx, ast.Load)]
        calls = [n for n in ast.walk(fn_node) if isinstance(n, ast.Call) and isinstance(n.func, ast.Name) and n.func.id == name]
        if not calls or len(calls) != len(loads):
            continue
        if any(c.keywords or len(c.args) != len(params) or any(isinstance(x, ast.Starred) for x in c.args) or not all(_read_only(x) for x in c.args) for c in calls):
            continue
        # calls inside other nested scopes would read the name late; keep those
        nested_nodes = {id(x) for n in ast.walk(fn_node) if isinstance(n, (ast.Lambda, ast.FunctionDef)) and n is not fn_node for x in ast.walk(n)}
        if any(id(c) in nested_nodes for c in calls):
            continue
        call_ids = {id(c) for c in calls}

        class R(ast.NodeTransformer):
            def visit_Call(self, node):
                self.generic_visit(node)
                if id(node) in call_ids:
                    m = dict(zip(params, node.args))

                    class S(ast.NodeTransformer):
                        def visit_Name(self, n2):
                            if n2.id in m and isinstance(n2.ctx, ast.Load):
                                return ast.copy_location(copy.deepcopy(m[n2.id]), n2)
                            return n2

                    return ast.copy_location(S().visit(copy.deepcopy(lam.body)), node)
                return node

        R().visit(fn_node)
        # the definition is dead now
        for n in ast.walk(fn_node):
            for fld in ("body", "orelse", "finalbody"):
                blk = getattr(n, fld, None)
                if isinstance(blk, list) and any(x is ds[0] for x in blk):
                    blk[:] = [x for x in blk if x is not ds[0]] or [ast.copy_location(ast.Pass(), ds[0])]
        count += 1
    if count:
        ast.fix_missing_locations(fn_node)
    return count


def counted_loops_to_while(fn_node) -> int:
    """``for k in range(N): if c: break; ...`` (a counted loop that opens with guard clauses - what a ``while a and b and
    k < N`` loop looks like after a for-conversion) -> ``k = 0; while k < N and not c: ...; k += 1``.
    Exact when N and the guards are read-only expressions, the body has no ``continue`` of this loop and no ``else``, and
    the counter is not read after the loop (its final value differs: N-1 vs N)."""
    from .aggregates import _read_only

    count = 0
    for node in ast.walk(fn_node):
        for fld in ("body", "orelse", "finalbody"):
            blk = getattr(node, fld, None)
            if not (isinstance(blk, list) and blk and isinstance(blk[0], ast.stmt)):
                continue
            i = 0
            while i < len(blk):
                st = blk[i]
                i += 1
                if not (isinstance(st, ast.For) and not st.orelse and isinstance(st.target, ast.Name)):
                    continue
                it = st.iter
                if not (isinstance(it, ast.Call) and isinstance(it.func, ast.Name) and it.func.id == "range" and len(it.args) == 1 and not it.keywords and _read_only(it.args[0])):
                    continue
                guards = []
                for b in st.body:
                    if isinstance(b, ast.If) and not b.orelse and len(b.body) == 1 and isinstance(b.body[0], ast.Break) and _read_only(b.test):
                        guards.append(b)
                    else:
                        break
                if not guards:
                    continue
                var = st.target.id
                rest = st.body[len(guards):]

                def own_continue(stmts):
                    for s_ in stmts:
                        if isinstance(s_, ast.Continue):
                            return True
                        if isinstance(s_, (ast.For, ast.While, ast.FunctionDef, ast.Lambda)):
                            continue
                        for f2 in ("body", "orelse", "finalbody"):
                            if own_continue(getattr(s_, f2, []) or []):
                                return True
                        if isinstance(s_, ast.Try) and any(own_continue(h.body) for h in s_.handlers):
                            return True
                    return False

                if own_continue(rest):
                    continue
                if any(isinstance(n, ast.Name) and n.id == var and not isinstance(n.ctx, ast.Load) for s_ in st.body for n in ast.walk(s_)):
                    continue
                # counter dead after the loop: no reference positioned after it in the function
                order, stack_, k_ = {}, [fn_node], 0
                while stack_:
                    n_ = stack_.pop()
                    order[id(n_)] = k_
                    k_ += 1
                    stack_.extend(reversed(list(ast.iter_child_nodes(n_))))
                end = max(order[id(n)] for n in ast.walk(st))
                if any(isinstance(n, ast.Name) and n.id == var and order[id(n)] > end for n in ast.walk(fn_node)):
                    continue
                # the guards may depend on the bound expression's names only by reading: N is re-evaluated per test in the
                # while form, so it must not change inside the loop
                nnames = {n.id for n in ast.walk(it.args[0]) if isinstance(n, ast.Name)} - {"self"}
                if any(isinstance(n, ast.Name) and n.id in nnames and not isinstance(n.ctx, ast.Load) for s_ in st.body for n in ast.walk(s_)):
                    continue
                nattrs = {ast.unparse(n) for n in ast.walk(it.args[0]) if isinstance(n, ast.Attribute)}
                if any(isinstance(n, ast.Attribute) and not isinstance(n.ctx, ast.Load) and ast.unparse(n) in nattrs for s_ in st.body for n in ast.walk(s_)):
                    continue
                test_parts = [ast.Compare(left=ast.Name(id=var, ctx=ast.Load()), ops=[ast.Lt()], comparators=[copy.deepcopy(it.args[0])])]
                test_parts += [ast.UnaryOp(op=ast.Not(), operand=g.test) for g in guards]
                w = ast.While(test=ast.BoolOp(op=ast.And(), values=test_parts), body=rest + [ast.AugAssign(target=ast.Name(id=var, ctx=ast.Store()), op=ast.Add(), value=ast.Constant(value=1))], orelse=[])
                init = ast.Assign(targets=[ast.Name(id=var, ctx=ast.Store())], value=ast.Constant(value=0))
                blk[i - 1:i] = [ast.copy_location(init, st), ast.copy_location(w, st)]
                i += 1
                count += 1
    if count:
        ast.fix_missing_locations(fn_node)
    return count


def nested_defs_to_lambdas(fn_node) -> int:
    """``def g(x): return e`` nested in a function -> ``g = lambda x: e`` (same closure, same call behaviour)."""
    count = 0
    for node in ast.walk(fn_node):
        for fld in ("body", "orelse", "finalbody"):
            blk = getattr(node, fld, None)
            if not (isinstance(blk, list) and blk and isinstance(blk[0], ast.stmt)):
                continue
            for i, st in enumerate(blk):
                if st is fn_node or not isinstance(st, ast.FunctionDef) or st.decorator_list:
                    continue
                body = [b for b in st.body if not (isinstance(b, ast.Expr) and isinstance(b.value, ast.Constant) and isinstance(b.value.value, str))]
                if len(body) != 1 or not isinstance(body[0], ast.Return) or body[0].value is None:
                    continue
                if any(isinstance(n, (ast.Yield, ast.YieldFrom, ast.Await)) for n in ast.walk(body[0])):
                    continue
                args = copy.deepcopy(st.args)
                for a in list(args.posonlyargs) + list(args.args) + list(args.kwonlyargs) + [x for x in (args.vararg, args.kwarg) if x]:
                    a.annotation = None
                lam = ast.Lambda(args=args, body=body[0].value)
                blk[i] = ast.copy_location(ast.Assign(targets=[ast.Name(id=st.name, ctx=ast.Store())], value=ast.copy_location(lam, st)), st)
                count += 1
    if count:
        ast.fix_missing_locations(fn_node)
    return count


CONTAINER_ATTRS = {"options", "optim_state", "function_logger", "iteration_history", "var_transf", "variable_transformer", "logger"}


def propagate_container_aliases(fn_node) -> List[str]:
    """``hist = self.iteration_history`` (a local bound once to one of the optimizer's state containers, which the function
    never re-binds) is replaced by the attribute itself: the rules address state as ``self.<container>[...]``."""
    assigns: Dict[str, list] = {}
    rebinds = set()
    for n in ast.walk(fn_node):
        if isinstance(n, ast.Assign):
            for t in n.targets:
                for x in ast.walk(t):
                    if isinstance(x, ast.Name) and isinstance(x.ctx, ast.Store):
                        assigns.setdefault(x.id, []).append(n)
                    if isinstance(x, ast.Attribute) and isinstance(x.ctx, ast.Store) and isinstance(x.value, ast.Name) and x.value.id == "self":
                        rebinds.add(x.attr)
        elif isinstance(n, (ast.AugAssign, ast.AnnAssign, ast.For, ast.With, ast.NamedExpr)):
            for x in ast.walk(n.target if hasattr(n, "target") else n):
                if isinstance(x, ast.Name) and isinstance(x.ctx, ast.Store):
                    assigns.setdefault(x.id, []).append(n)
    params = {a.arg for a in fn_node.args.args + fn_node.args.kwonlyargs}
    # a container built in a local first (``vt = VariableTransformer(..); self.var_transf = vt``): stored directly, the local
    # then is a plain alias of the attribute like any other
    attr_store_count: Dict[str, int] = {}
    for n in ast.walk(fn_node):
        if isinstance(n, ast.Attribute) and isinstance(n.ctx, ast.Store) and isinstance(n.value, ast.Name) and n.value.id == "self":
            attr_store_count[n.attr] = attr_store_count.get(n.attr, 0) + 1
    built_first = []
    for n in ast.walk(fn_node):
        for fld in ("body", "orelse", "finalbody"):
            blk = getattr(n, fld, None)
            if not (isinstance(blk, list) and len(blk) >= 2 and isinstance(blk[0], ast.stmt)):
                continue
            for i in range(len(blk) - 1):
                a, b = blk[i], blk[i + 1]
                if (isinstance(a, ast.Assign) and len(a.targets) == 1 and isinstance(a.targets[0], ast.Name) and len(assigns.get(a.targets[0].id, [])) == 1
                        and a.targets[0].id not in params and a.targets[0].id not in STATE_NAMES and not isinstance(a.value, (ast.Name, ast.Attribute))
                        and isinstance(b, ast.Assign) and len(b.targets) == 1 and isinstance(b.targets[0], ast.Attribute) and isinstance(b.targets[0].value, ast.Name)
                        and b.targets[0].value.id == "self" and b.targets[0].attr in CONTAINER_ATTRS and attr_store_count.get(b.targets[0].attr) == 1
                        and isinstance(b.value, ast.Name) and b.value.id == a.targets[0].id):
                    built_first.append((blk, a, b))
    done_first = []
    for blk, a, b in built_first:
        name, attr = a.targets[0].id, b.targets[0].attr
        b.value = a.value
        blk[:] = [x for x in blk if x is not a]
        repl = ast.Attribute(value=ast.Name(id="self", ctx=ast.Load()), attr=attr, ctx=ast.Load())

        class RB(ast.NodeTransformer):
            def visit_Name(self, node):
                if node.id == name and isinstance(node.ctx, ast.Load):
                    return ast.copy_location(copy.deepcopy(repl), node)
                return node

        RB().visit(fn_node)
        assigns.pop(name, None)
        done_first.append(name)
    if done_first:
        ast.fix_missing_locations(fn_node)
    subst = {}
    for name, sts in assigns.items():
        if name in params or name in STATE_NAMES:
            continue
        vals = []
        for st in sts:
            if not (isinstance(st, ast.Assign) and len(st.targets) == 1 and isinstance(st.targets[0], ast.Name)):
                vals = None
                break
            v = st.value
            if not (isinstance(v, ast.Attribute) and isinstance(v.value, ast.Name) and v.value.id == "self" and v.attr in CONTAINER_ATTRS and v.attr not in rebinds):
                vals = None
                break
            vals.append(v.attr)
        if vals and len(set(vals)) == 1:
            subst[name] = (sts[0].value, sts)
    if not subst:
        return sorted(done_first)

    class R(ast.NodeTransformer):
        def visit_Name(self, node):
            if node.id in subst and isinstance(node.ctx, ast.Load):
                return ast.copy_location(copy.deepcopy(subst[node.id][0]), node)
            return node

    drop = {id(st) for _v, sts_ in subst.values() for st in sts_}

    class D(ast.NodeTransformer):
        def generic_visit(self, node):
            for field in ("body", "orelse", "finalbody"):
                blk = getattr(node, field, None)
                if isinstance(blk, list):
                    blk[:] = [x for x in blk if id(x) not in drop] or ([ast.Pass()] if blk and field == "body" else [])
            return super().generic_visit(node)

    D().visit(fn_node)
    R().visit(fn_node)
    ast.fix_missing_locations(fn_node)
    return sorted(set(subst) | set(done_first))


# local names the rules already read as state containers (terms.STATE_ALIASES): left alone
STATE_NAMES = {"optim_state", "options", "function_logger", "func_logger", "iteration_history", "options_dict"}


class _IfExpSplitter(ast.NodeTransformer):
    """``x = a if c else b``  ->  ``if c: x = a  else: x = b`` (statement level only)."""

    def visit_Assign(self, node: ast.Assign):
        if isinstance(node.value, ast.IfExp) and len(node.targets) == 1:
            a = ast.Assign(targets=[copy.deepcopy(node.targets[0])], value=node.value.body)
            b = ast.Assign(targets=[copy.deepcopy(node.targets[0])], value=node.value.orelse)
            new = ast.If(test=node.value.test, body=[self.visit(ast.copy_location(a, node))], orelse=[self.visit(ast.copy_location(b, node))])
            return ast.copy_location(new, node)
        return node


def single_exit_form(fn_node: ast.FunctionDef) -> bool:
    """Rewrite ``fn_node`` in place so that it has one ``return <name>`` at its end: conditional expressions at statement
    level become if statements, every ``return e`` becomes an assignment to the result variable (a returned name, or the
    array a returned subscript selects from), and the statements after an ``if`` holding a return move into the branches
    that fall through.  Returns False (and leaves the function alone) when the returns are not structured."""
    body = list(fn_node.body)
    doc = []
    if body and isinstance(body[0], ast.Expr) and isinstance(body[0].value, ast.Constant) and isinstance(body[0].value.value, str):
        doc, body = body[:1], body[1:]
    rets = [n for n in ast.walk(fn_node) if isinstance(n, ast.Return) and n.value is not None]
    if not rets or not _structured_returns(body):
        return False
    if len(rets) == 1 and isinstance(rets[0].value, ast.Name) and body and body[-1] is rets[0] and not _contains(fn_node, ast.IfExp):
        return False  # already in the form
    names = [r.value.id for r in rets if isinstance(r.value, ast.Name)]
    bases = [r.value.value.id for r in rets if isinstance(r.value, ast.Subscript) and isinstance(r.value.value, ast.Name)]
    result = (names or bases or [None])[0]
    if result is None:
        result = "result_"
    body = [_IfExpSplitter().visit(s_) for s_ in body]

    def on_return(v):
        if v is None or (isinstance(v, ast.Name) and v.id == result):
            return []
        a = ast.Assign(targets=[ast.Name(id=result, ctx=ast.Store())], value=v)
        return [ast.copy_location(a, v)]

    flat, _all = _single_exit(body, on_return)
    last = ast.Return(value=ast.Name(id=result, ctx=ast.Load()))
    ast.copy_location(last, rets[-1])
    fn_node.body = doc + flat + [last]
    ast.fix_missing_locations(fn_node)
    return True


def propagate_module_constants(prog: Program) -> List[str]:
    """``_LCB_NU = 0.2`` at module level (private upper-case name, one literal definition in the package, never re-bound):
    its uses read the literal.  A maintainer's named constant must not hide the number from the term rules."""
    import re as _re

    defs: Dict[str, list] = {}
    stores: Dict[str, int] = {}
    for m in prog.modules.values():
        for n in ast.walk(m.tree):
            if isinstance(n, ast.Name) and not isinstance(n.ctx, ast.Load):
                stores[n.id] = stores.get(n.id, 0) + 1
            elif isinstance(n, ast.Global):
                for nm in n.names:
                    stores[nm] = stores.get(nm, 0) + 2
        for st in m.tree.body:
            if isinstance(st, ast.Assign) and len(st.targets) == 1 and isinstance(st.targets[0], ast.Name) and _re.fullmatch(r"_[A-Z][A-Z0-9_]*", st.targets[0].id):
                v = st.value
                if isinstance(v, ast.UnaryOp) and isinstance(v.op, ast.USub) and isinstance(v.operand, ast.Constant) and isinstance(v.operand.value, (int, float)):
                    defs.setdefault(st.targets[0].id, []).append((m, st, v))
                elif isinstance(v, ast.Constant) and isinstance(v.value, (int, float, str, bool)):
                    defs.setdefault(st.targets[0].id, []).append((m, st, v))
                elif isinstance(v, ast.Tuple) and v.elts and all(
                        isinstance(e, ast.Constant) or (isinstance(e, ast.Attribute) and isinstance(e.value, ast.Name) and e.value.id in ("np", "numpy", "math")) for e in v.elts):
                    # a tuple of constants / library functions (``_CHECKS = (np.isscalar, np.isfinite)``): immutable as well
                    defs.setdefault(st.targets[0].id, []).append((m, st, v))
    out = []
    for name, ds in defs.items():
        if len(ds) != 1 or stores.get(name) != 1:
            continue
        m0, st0, v0 = ds[0]
        n_repl = 0
        for m in prog.modules.values():
            visible = m is m0 or any(isinstance(x, ast.ImportFrom) and any(a.name == name and a.asname in (None, name) for a in x.names) for x in ast.walk(m.tree))
            if not visible:
                continue

            class Rp(ast.NodeTransformer):
                def visit_Name(self, node):
                    nonlocal n_repl
                    if node.id == name and isinstance(node.ctx, ast.Load):
                        n_repl += 1
                        return ast.copy_location(copy.deepcopy(v0), node)
                    return node

            Rp().visit(m.tree)
        if n_repl:
            out.append(f"{m0.name}:{name} (constant {ast.unparse(v0)} propagated to {n_repl} use(s))")
    return out


def index_chain_to_rows(fn_node) -> Optional[str]:
    """A filter that tracks the surviving rows as an index vector into one base array (``rows = np.sort(idx); ... rows =
    rows[keep]; ... return B[rows]``) is rewritten to carry the row set itself next to the index vector: after every
    ``rows = E`` the statement ``B__sel = B[rows]`` is added (``B__sel = B__sel[keep]`` after ``rows = rows[keep]``, since
    B[rows[keep]] == B[rows][keep]), and every read ``B[rows]`` becomes ``B__sel``.  ``rows.size`` / ``len(rows)`` are
    read as those of the row set (equal in zero-ness as long as the base has at least one column).  Only the base array
    that the function returns through is rewritten; the base must not be re-bound once the index vector exists."""
    rets = [n for n in ast.walk(fn_node) if isinstance(n, ast.Return) and n.value is not None]
    cand = None
    for r in rets:
        v = r.value
        # B[R] or a further selection of it, B[R][sel]
        while isinstance(v, ast.Subscript) and isinstance(v.value, ast.Subscript):
            v = v.value
        if isinstance(v, ast.Subscript) and isinstance(v.value, ast.Name) and isinstance(v.slice, ast.Name):
            if cand is not None and cand != (v.value.id, v.slice.id):
                return None
            cand = (v.value.id, v.slice.id)
        else:
            return None
    if cand is None:
        return None
    B, R = cand
    order, stack_, k_ = {}, [fn_node], 0
    while stack_:
        n_ = stack_.pop()
        order[id(n_)] = k_
        k_ += 1
        stack_.extend(reversed(list(ast.iter_child_nodes(n_))))
    parents = {}
    for p_ in ast.walk(fn_node):
        for c_ in ast.iter_child_nodes(p_):
            parents[id(c_)] = p_
    r_stores = [n for n in ast.walk(fn_node) if isinstance(n, ast.Name) and n.id == R and not isinstance(n.ctx, ast.Load)]
    b_stores = [n for n in ast.walk(fn_node) if isinstance(n, ast.Name) and n.id == B and not isinstance(n.ctx, ast.Load)]
    if not r_stores or not b_stores or max(order[id(n)] for n in b_stores) > min(order[id(n)] for n in r_stores):
        return None
    for n in r_stores:
        st = parents.get(id(n))
        if not (isinstance(st, ast.Assign) and len(st.targets) == 1 and st.targets[0] is n):
            return None
    # every read of R is understood
    for n in ast.walk(fn_node):
        if isinstance(n, ast.Name) and n.id == R and isinstance(n.ctx, ast.Load):
            par = parents.get(id(n))
            if isinstance(par, ast.Subscript) and par.slice is n and isinstance(par.value, ast.Name):
                continue  # X[R]
            if isinstance(par, ast.Subscript) and par.value is n:
                gp = parents.get(id(par))
                if isinstance(gp, ast.Assign) and gp.value is par and len(gp.targets) == 1 and isinstance(gp.targets[0], ast.Name) and gp.targets[0].id == R:
                    continue  # R = R[sel]
                return None
            if isinstance(par, ast.Attribute) and par.attr in ("size", "shape"):
                continue
            if isinstance(par, ast.Call) and isinstance(par.func, ast.Name) and par.func.id == "len":
                continue
            return None
    V = f"{B}__sel"
    names = {n.id for n in ast.walk(fn_node) if isinstance(n, ast.Name)}
    while V in names:
        V += "_"

    class Rw(ast.NodeTransformer):
        def visit_Subscript(self, node):
            self.generic_visit(node)
            if isinstance(node.value, ast.Name) and node.value.id == B and isinstance(node.slice, ast.Name) and node.slice.id == R and isinstance(node.ctx, ast.Load):
                return ast.copy_location(ast.Name(id=V, ctx=ast.Load()), node)
            return node

        def visit_Attribute(self, node):
            self.generic_visit(node)
            if isinstance(node.value, ast.Name) and node.value.id == R and node.attr == "size" and isinstance(node.ctx, ast.Load):
                node.value = ast.copy_location(ast.Name(id=V, ctx=ast.Load()), node.value)
            return node

        def visit_Call(self, node):
            self.generic_visit(node)
            if isinstance(node.func, ast.Name) and node.func.id == "len" and len(node.args) == 1 and isinstance(node.args[0], ast.Name) and node.args[0].id == R:
                node.args[0] = ast.copy_location(ast.Name(id=V, ctx=ast.Load()), node.args[0])
            return node

    # remember which assignments refine R before the reads are rewritten
    refine = {}
    for n in r_stores:
        st = parents[id(n)]
        v = st.value
        refine[id(st)] = v.slice if (isinstance(v, ast.Subscript) and isinstance(v.value, ast.Name) and v.value.id == R) else None
    Rw().visit(fn_node)
    for blk_owner in ast.walk(fn_node):
        for fld in ("body", "orelse", "finalbody"):
            blk = getattr(blk_owner, fld, None)
            if not (isinstance(blk, list) and blk and isinstance(blk[0], ast.stmt)):
                continue
            i = 0
            while i < len(blk):
                st = blk[i]
                i += 1
                if id(st) not in refine:
                    continue
                sel = refine[id(st)]
                if sel is None:
                    val = ast.Subscript(value=ast.Name(id=B, ctx=ast.Load()), slice=ast.Name(id=R, ctx=ast.Load()), ctx=ast.Load())
                else:
                    val = ast.Subscript(value=ast.Name(id=V, ctx=ast.Load()), slice=copy.deepcopy(sel), ctx=ast.Load())
                new = ast.copy_location(ast.Assign(targets=[ast.Name(id=V, ctx=ast.Store())], value=val), st)
                blk.insert(i, new)
                i += 1
    ast.fix_missing_locations(fn_node)
    return f"{R} -> {V} = {B}[{R}]"


def _noneness(e) -> Optional[bool]:
    """True = certainly None, False = certainly not None, None = unknown."""
    if isinstance(e, ast.Constant):
        return e.value is None
    if isinstance(e, (ast.Tuple, ast.List, ast.Dict, ast.Set, ast.JoinedStr, ast.ListComp, ast.DictComp, ast.SetComp)):
        return False
    return None


def _truthiness(e) -> Optional[bool]:
    if isinstance(e, ast.Constant):
        return bool(e.value)
    return None


def hoist_common_updates(fn_node) -> int:
    """``if c: S; x -= 2; T else: x -= 1`` (both branches update x by a constant, with the same operator, after statements
    that neither read nor write x, and c does not read x): the common part ``x -= 1`` moves in front of the if and the
    branches keep the difference (``x -= 1`` / nothing).  Applied inner ifs first, this turns "decrement by two when
    stalling, else by one" back into "decrement; when stalling decrement again"."""
    done = 0

    def mentions(node, key):
        return any(isinstance(n, (ast.Attribute, ast.Name, ast.Subscript)) and _safe_unparse(n) == key for n in ast.walk(node))

    def first_update(stmts, key_hint=None):
        for k_, st_ in enumerate(stmts):
            if isinstance(st_, ast.AugAssign) and isinstance(st_.op, (ast.Add, ast.Sub)) and isinstance(st_.value, ast.Constant) and isinstance(st_.value.value, (int, float)) \
                    and isinstance(st_.target, (ast.Attribute, ast.Name)):
                key = _safe_unparse(st_.target)
                if key_hint is not None and key != key_hint:
                    continue
                if any(mentions(x, key) for x in stmts[:k_]):
                    return None
                return k_, key, st_
        return None

    ifs = [n for n in ast.walk(fn_node) if isinstance(n, ast.If) and n.orelse]
    for node in reversed(ifs):  # inner statements come later in ast.walk order: handle them first
        fu = first_update(node.body)
        if fu is None:
            continue
        kb, key, ub = fu
        fo = first_update(node.orelse, key)
        if fo is None:
            continue
        ko, _key, uo = fo
        if type(ub.op) is not type(uo.op) or mentions(node.test, key):
            continue
        common = min(ub.value.value, uo.value.value)
        if common <= 0:
            continue
        # locate the block that holds the if
        holder = None
        for par in ast.walk(fn_node):
            for fld in ("body", "orelse", "finalbody"):
                blk = getattr(par, fld, None)
                if isinstance(blk, list) and any(x is node for x in blk):
                    holder = blk
        if holder is None:
            continue
        for upd, blk_, k_ in ((ub, node.body, kb), (uo, node.orelse, ko)):
            rest = upd.value.value - common
            if rest == 0:
                del blk_[k_]
            else:
                upd.value = ast.copy_location(ast.Constant(value=rest), upd.value)
        if not node.body:
            node.body.append(ast.copy_location(ast.Pass(), node))
        i = next(k_ for k_, x in enumerate(holder) if x is node)
        hoisted = ast.AugAssign(target=copy.deepcopy(ub.target), op=type(ub.op)(), value=ast.Constant(value=common))
        holder.insert(i, ast.copy_location(hoisted, node))
        done += 1
    if done:
        ast.fix_missing_locations(fn_node)
    return done


def _safe_unparse(n) -> str:
    try:
        return ast.unparse(n)
    except Exception:
        return ""


def default_then_override(fn_node) -> int:
    """``v = K`` (a constant, or another local the if does not re-bind) directly followed by ``if c: ...; v = E`` without else, c not reading v: the default moves into
    an else branch, so that every branch of the if ends with its own definition of v (the shape flag threading works on)."""
    done = 0
    for node in ast.walk(fn_node):
        for fld in ("body", "orelse", "finalbody"):
            blk = getattr(node, fld, None)
            if not (isinstance(blk, list) and blk and isinstance(blk[0], ast.stmt)):
                continue
            i = 0
            while i + 1 < len(blk):
                a, b = blk[i], blk[i + 1]
                i += 1
                if not (isinstance(a, ast.Assign) and len(a.targets) == 1 and isinstance(a.targets[0], ast.Name) and isinstance(a.value, (ast.Constant, ast.Name))):
                    continue
                v = a.targets[0].id
                if not (isinstance(b, ast.If) and not b.orelse and b.body):
                    continue
                if isinstance(a.value, ast.Name) and (a.value.id == v or any(isinstance(n, ast.Name) and n.id == a.value.id and not isinstance(n.ctx, ast.Load) for n in ast.walk(b))):
                    continue  # the default is another local: it must still hold the same value at the end of the if
                # v is never read inside the if, and every assignment to it there closes its block (possibly in nested ifs)
                if any(isinstance(n, ast.Name) and n.id == v and isinstance(n.ctx, ast.Load) for n in ast.walk(b)):
                    continue
                stores_v = [n for n in ast.walk(b) if isinstance(n, ast.Name) and n.id == v and not isinstance(n.ctx, ast.Load)]
                if not stores_v:
                    continue

                def closes(stmts) -> bool:
                    """every store to v in this statement list is the last statement of its own block"""
                    for k_, st_ in enumerate(stmts):
                        is_store = isinstance(st_, ast.Assign) and len(st_.targets) == 1 and isinstance(st_.targets[0], ast.Name) and st_.targets[0].id == v
                        if is_store and k_ != len(stmts) - 1:
                            return False
                        if not is_store and any(isinstance(n, ast.Name) and n.id == v for n in ast.walk(st_)):
                            if not (isinstance(st_, ast.If) and k_ == len(stmts) - 1 and closes(st_.body) and closes(st_.orelse)):
                                return False
                    return True

                if not (closes(b.body) and not b.orelse):
                    continue

                def complete(stmts):
                    if not stmts:
                        stmts.append(copy.deepcopy(a))
                        return
                    last_ = stmts[-1]
                    if isinstance(last_, ast.Assign) and len(last_.targets) == 1 and isinstance(last_.targets[0], ast.Name) and last_.targets[0].id == v:
                        return
                    if isinstance(last_, ast.If) and any(isinstance(n, ast.Name) and n.id == v for n in ast.walk(last_)):
                        complete(last_.body)
                        complete(last_.orelse)
                        return
                    if isinstance(last_, (ast.Return, ast.Raise, ast.Continue, ast.Break)):
                        return
                    stmts.append(copy.deepcopy(a))

                complete(b.body)
                complete(b.orelse)
                del blk[i - 1]
                i -= 1
                done += 1
    if done:
        ast.fix_missing_locations(fn_node)
    return done


def thread_none_tests(fn_node) -> int:
    """``if c: ..; v = None  else: ..; v = (a, b)`` directly followed by ``if v is not None: S1 [else: S2]``: the second test
    is decided on every path of the first statement, so S1 / S2 move to the ends of those paths (and ``return v`` right
    after ``v = (a, b)`` returns the tuple).  The same for a boolean flag: ``if c: v = False else: v = <e>`` followed by
    ``if v: S1`` - the branch that set the constant takes its side directly, the other one keeps the test.  This is what a
    guard-clause helper (``r = self._try(); if r is not None: return r`` / a predicate with early ``return False``) looks
    like once the helper is inlined."""
    done = 0

    def leaves(stmts, var, decide):
        """-> list of (block, kind) with kind in {True, False, 'exit', 'keep'} or None if the shape is not recognised"""
        if not stmts:
            return None
        last = stmts[-1]
        if isinstance(last, (ast.Return, ast.Raise, ast.Continue, ast.Break)):
            return [(stmts, "exit")]
        if isinstance(last, ast.Assign) and len(last.targets) == 1 and isinstance(last.targets[0], ast.Name) and last.targets[0].id == var:
            k = decide(last.value)
            return [(stmts, "keep" if k is None else k)]
        if isinstance(last, ast.If) and last.orelse:
            a, b = leaves(last.body, var, decide), leaves(last.orelse, var, decide)
            return None if a is None or b is None else a + b
        return None

    for node in ast.walk(fn_node):
        for fld in ("body", "orelse", "finalbody"):
            blk = getattr(node, fld, None)
            if not (isinstance(blk, list) and blk and isinstance(blk[0], ast.stmt)):
                continue
            i = 0
            while i + 1 < len(blk):
                a, b = blk[i], blk[i + 1]
                i += 1
                if not (isinstance(a, ast.If) and a.orelse and isinstance(b, ast.If)):
                    continue
                t = b.test
                neg = False
                while isinstance(t, ast.UnaryOp) and isinstance(t.op, ast.Not):
                    t, neg = t.operand, not neg
                if (isinstance(t, ast.Compare) and len(t.ops) == 1 and isinstance(t.ops[0], (ast.Is, ast.IsNot)) and isinstance(t.left, ast.Name)
                        and isinstance(t.comparators[0], ast.Constant) and t.comparators[0].value is None):
                    var, decide, allow_keep = t.left.id, _noneness, False
                    # kind True = "is None" holds
                    positive_is_body = isinstance(t.ops[0], ast.Is) != neg
                elif isinstance(t, ast.Name):
                    var, decide, allow_keep = t.id, _truthiness, True
                    positive_is_body = not neg
                elif (isinstance(t, ast.Compare) and len(t.ops) == 1 and isinstance(t.ops[0], (ast.Gt, ast.NotEq)) and isinstance(t.left, ast.Call) and isinstance(t.left.func, ast.Name)
                      and t.left.func.id == "len" and len(t.left.args) == 1 and isinstance(t.left.args[0], ast.Name) and isinstance(t.comparators[0], ast.Constant) and t.comparators[0].value == 0):
                    # len(msg) > 0 with msg a string literal on every path
                    var, decide, allow_keep = t.left.args[0].id, (lambda e_: bool(e_.value) if isinstance(e_, ast.Constant) and isinstance(e_.value, str) else None), False
                    positive_is_body = not neg
                elif (isinstance(t, ast.Compare) and len(t.ops) == 1 and isinstance(t.ops[0], ast.NotEq) and isinstance(t.left, ast.Name) and isinstance(t.comparators[0], ast.Constant)
                      and t.comparators[0].value == ""):
                    var, decide, allow_keep = t.left.id, (lambda e_: bool(e_.value) if isinstance(e_, ast.Constant) and isinstance(e_.value, str) else None), False
                    positive_is_body = not neg
                else:
                    continue
                lv = leaves([a], var, decide)
                if lv is None or not any(k in (True, False) for _b, k in lv):
                    continue
                if not allow_keep and any(k == "keep" for _b, k in lv):
                    continue
                if sum(1 for _ in ast.walk(b)) > 200:
                    continue
                for leaf, k in lv:
                    if k == "exit":
                        continue
                    if k == "keep":
                        leaf.append(copy.deepcopy(b))
                        continue
                    taken = b.body if (k == positive_is_body) else b.orelse
                    tail = copy.deepcopy(taken)
                    if decide is _noneness and not k and tail and isinstance(tail[0], ast.Return) and isinstance(tail[0].value, ast.Name) and tail[0].value.id == var:
                        tail[0].value = copy.deepcopy(leaf[-1].value)
                    leaf.extend(tail)
                del blk[i]
                i -= 1
                done += 1
    return done


def expand_new_properties(prog: Program) -> List[str]:
    """a read-only ``@property`` that is not part of the reference tree and whose body is one ``return <expr over self>``
    (no setter / deleter of that name): ``self.<name>`` inside the methods of the class and its subclasses is replaced by the
    expression.  The expression is evaluated at the read either way."""
    log = []
    inv = _inventory()[1]
    for cls in prog.classes():
        props = {}
        for st in cls.node.body:
            if not isinstance(st, ast.FunctionDef):
                continue
            decs = [ast.unparse(d) for d in st.decorator_list]
            if decs != ["property"] or body_hash(st) in inv:
                continue
            body = [b for b in st.body if not (isinstance(b, ast.Expr) and isinstance(b.value, ast.Constant))]
            if len(body) != 1 or not isinstance(body[0], ast.Return) or body[0].value is None:
                continue
            params = [a.arg for a in st.args.args]
            if len(params) != 1 or st.args.vararg or st.args.kwarg or st.args.kwonlyargs:
                continue
            expr = body[0].value
            if any(isinstance(n, (ast.Lambda, ast.Yield, ast.Await, ast.NamedExpr)) for n in ast.walk(expr)):
                continue
            # only ``self`` and module-level names are read
            if any(isinstance(n, ast.Name) and n.id != params[0] and isinstance(n.ctx, ast.Load) and n.id not in cls.module.functions and n.id not in cls.module.classes and n.id not in cls.module.imports and n.id not in dir(__builtins__) and n.id not in ("np", "True", "False", "None") for n in ast.walk(expr)):
                continue
            props[st.name] = (params[0], expr)
        # a setter / deleter registers the same name again: leave those alone
        for st in cls.node.body:
            if isinstance(st, ast.FunctionDef) and any(isinstance(d, ast.Attribute) and d.attr in ("setter", "deleter") for d in st.decorator_list):
                props.pop(st.name, None)
        if not props:
            continue
        done = {}
        for c2 in [cls] + cls.subclasses(prog):
            for m in c2.methods.values():
                if m.node.name in props and c2 is cls:
                    continue
                mp = [a.arg for a in m.node.args.args]
                if not mp:
                    continue
                me = mp[0]
                if any(isinstance(n, ast.Attribute) and n.attr in props and not isinstance(n.ctx, ast.Load) for n in ast.walk(m.node)):
                    continue

                class P(ast.NodeTransformer):
                    def visit_Attribute(self, node):
                        self.generic_visit(node)
                        if isinstance(node.ctx, ast.Load) and node.attr in props and isinstance(node.value, ast.Name) and node.value.id == me:
                            pself, ex = props[node.attr]
                            ex = copy.deepcopy(ex)
                            for n in ast.walk(ex):
                                if isinstance(n, ast.Name) and n.id == pself:
                                    n.id = me
                            done[node.attr] = done.get(node.attr, 0) + 1
                            return ast.copy_location(ex, node)
                        return node

                P().visit(m.node)
        for k_, n_ in done.items():
            log.append(f"{cls.module.name}:{cls.name}.{k_} (read-only property expanded at {n_} read(s))")
    return log


def drop_value_memos(prog: Program) -> List[str]:
    """One-entry memo of a value computed from a parameter, keyed by the parameter's bytes:

        key = <expr over x: tobytes / dtype / shape>            (a local bound once)
        if key == self.K:   t = self.V.copy()
        else:               t = <E>;  self.K = key;  self.V = t.copy()

    with self.K / self.V stored nowhere else in the class than here and (to None) in ``__init__``: the hit path yields a
    fresh copy of what <E> gave for an x with the same bytes.  For the analysis the statement is replaced by ``t = <E>``.
    Assumption recorded in the log: <E> depends on x and on state that does not change between calls (the memoised
    function is pure) - the authors' equivalence batteries check that dynamically; the rewrite is refused when the hit
    path hands out the cached object itself (no copy) or the stored value aliases t."""
    log = []
    inv = _inventory()[1]

    def is_copy_of(e, name_canon):
        return isinstance(e, ast.Call) and isinstance(e.func, ast.Attribute) and e.func.attr == "copy" and not e.args and ast.unparse(e.func.value) == name_canon

    for cls in prog.classes():
        for m in cls.methods.values():
            if body_hash(m.node) in inv:
                continue
            for node in ast.walk(m.node):
                for fld in ("body", "orelse", "finalbody"):
                    blk = getattr(node, fld, None)
                    if not (isinstance(blk, list) and blk and isinstance(blk[0], ast.stmt)):
                        continue
                    for i, st in enumerate(blk):
                        if not (isinstance(st, ast.If) and isinstance(st.test, ast.Compare) and len(st.test.ops) == 1 and isinstance(st.test.ops[0], ast.Eq) and len(st.body) == 1 and len(st.orelse) == 3):
                            continue
                        l, r = st.test.left, st.test.comparators[0]
                        if isinstance(r, ast.Name):
                            l, r = r, l
                        if not (isinstance(l, ast.Name) and isinstance(r, ast.Attribute) and isinstance(r.value, ast.Name) and r.value.id == "self"):
                            continue
                        key, K = l.id, r.attr
                        hit = st.body[0]
                        e1, e2, e3 = st.orelse
                        if not (isinstance(hit, ast.Assign) and len(hit.targets) == 1 and isinstance(hit.targets[0], ast.Name) and isinstance(e1, ast.Assign) and len(e1.targets) == 1
                                and isinstance(e1.targets[0], ast.Name) and e1.targets[0].id == hit.targets[0].id):
                            continue
                        t = hit.targets[0].id
                        stores = {}
                        for e_ in (e2, e3):
                            if isinstance(e_, ast.Assign) and len(e_.targets) == 1 and isinstance(e_.targets[0], ast.Attribute) and isinstance(e_.targets[0].value, ast.Name) and e_.targets[0].value.id == "self":
                                stores[e_.targets[0].attr] = e_.value
                        if len(stores) != 2 or K not in stores or not (isinstance(stores[K], ast.Name) and stores[K].id == key):
                            continue
                        V = [a for a in stores if a != K][0]
                        if not is_copy_of(stores[V], t) or not is_copy_of(hit.value, f"self.{V}"):
                            continue
                        # the key: a local bound once, from the parameter's bytes
                        kdefs = [n for n in ast.walk(m.node) if isinstance(n, ast.Assign) and any(isinstance(x, ast.Name) and x.id == key for x in n.targets)]
                        if len(kdefs) != 1 or "tobytes" not in ast.unparse(kdefs[0].value):
                            continue
                        # K and V are stored nowhere else (None in __init__ excepted)
                        other = False
                        for m2 in cls.methods.values():
                            for n in ast.walk(m2.node):
                                if isinstance(n, ast.Attribute) and n.attr in (K, V) and isinstance(n.value, ast.Name) and n.value.id == "self":
                                    par_ok = any(n is x for e_ in (e2, e3, hit, st.test) for x in ast.walk(e_))
                                    if par_ok:
                                        continue
                                    if isinstance(n.ctx, ast.Store):
                                        asg = [a for a in ast.walk(m2.node) if isinstance(a, ast.Assign) and any(tt is n for tt in a.targets)]
                                        if asg and isinstance(asg[0].value, ast.Constant) and asg[0].value.value is None:
                                            continue
                                    other = True
                        if other:
                            continue
                        blk[i] = ast.copy_location(ast.Assign(targets=[ast.Name(id=t, ctx=ast.Store())], value=e1.value), st)
                        log.append(f"{m.qualname} (one-entry memo self.{K} / self.{V} of a value keyed by the parameter's bytes read as the computation itself; assumes the memoised expression is a pure function of the keyed parameter)")
    if log:
        for mo in prog.modules.values():
            ast.fix_missing_locations(mo.tree)
    return log


def normalise(prog: Program) -> Tuple[Program, List[str]]:
    """-> (normalised program, names of the helpers that were inlined)."""
    log: List[str] = []
    if os.environ.get("PBSTATIC_NO_INLINE"):
        return prog, log
    pc = propagate_module_constants(prog)
    if pc:
        log += pc
        for m in prog.modules.values():
            ast.fix_missing_locations(m.tree)
        trees = {m.relpath: m.tree for m in prog.modules.values()}
        prog = Program(prog.root, override_trees=trees)
    dm = drop_value_memos(prog)
    if dm:
        log += dm
        trees = {m.relpath: m.tree for m in prog.modules.values()}
        prog = Program(prog.root, override_trees=trees)
    pe = expand_new_properties(prog)
    if pe:
        log += pe
        for m in prog.modules.values():
            ast.fix_missing_locations(m.tree)
        trees = {m.relpath: m.tree for m in prog.modules.values()}
        prog = Program(prog.root, override_trees=trees)
    for _round in range(MAX_ROUNDS):
        plan = _candidates(prog)
        if not plan:
            break
        # inline helpers that themselves call other candidates later (next round)
        cand = {f for f, *_ in plan}
        changed = False
        taken_by_caller: Dict[FunctionInfo, Set[str]] = {}
        for f, body, sites, ctxs, is_static in plan:
            if any(isinstance(t, FunctionInfo) and t in cand and t is not f for _c, tg in prog.calls_in(f) for t in tg):
                continue  # inline its own helpers first
            deferred = 0
            for (caller, call), (stmt, kind) in zip(sites, ctxs):
                # an earlier inlining of this round may have replaced the statement (nested sites f(g(x))): the stale
                # context is not used, the site is taken up again in the next round on the rebuilt program
                if kind == "exprsubst":
                    if not any(n is call for n in ast.walk(stmt.test)):
                        deferred += 1
                        continue
                    _substitute_expression(f, body, call, stmt, is_static)
                    changed = True
                    continue
                if _block_of(prog, stmt) is None or not any(n is call for n in ast.walk(stmt)):
                    deferred += 1
                    continue
                taken = taken_by_caller.setdefault(caller, _all_names(caller.node))
                _inline_site(prog, f, body, caller, call, stmt, kind, is_static, taken)
                changed = True
            if deferred:
                continue
            # drop the definition
            container = f.cls.node.body if f.cls is not None else f.module.tree.body
            container[:] = [x for x in container if x is not f.node]
            log.append(f"{f.qualname} ({len(sites)} site{'s' if len(sites) != 1 else ''})")
            changed = True
        if not changed:
            break
        trees = {m.relpath: m.tree for m in prog.modules.values()}
        prog = Program(prog.root, override_trees=trees)
    # small aggregates (private NamedTuples, literal tuples) back to scalars
    from .aggregates import flatten_aggregates

    prog, agg = flatten_aggregates(prog)
    log += agg
    # dict-literal wrappers
    dw = expand_dict_wrappers(prog)
    if dw:
        log += dw
        trees = {m.relpath: m.tree for m in prog.modules.values()}
        prog = Program(prog.root, override_trees=trees)
    # container aliases, literal-tuple generators
    changed_alias = False
    for fn in list(prog.functions()):
        al = propagate_container_aliases(fn.node)
        if al:
            changed_alias = True
            log.append(f"{fn.qualname} (container aliases {', '.join(al)} expanded)")
        if body_hash(fn.node) not in _inventory()[1]:
            if fold_constant_tests(fn.node):
                changed_alias = True
            if split_elementwise_unpack(fn.node):
                changed_alias = True
            if default_then_override(fn.node):
                changed_alias = True
            nt = thread_none_tests(fn.node)
            nt += thread_none_tests(fn.node)  # a second flag set by the branches the first threading produced
            if hoist_common_updates(fn.node):
                changed_alias = True
                flip_empty_branches(fn.node)
            if nt:
                ast.fix_missing_locations(fn.node)
                changed_alias = True
                log.append(f"{fn.qualname} ({nt} test(s) of a just-assigned None / tuple flag threaded into the assigning branches)")
            if static_attr_access(fn.node):
                changed_alias = True
            name_iterated_dict_literals(fn.node)
            ncd = unroll_const_dict_loops(fn.node)
            ncd += flatten_const_dicts(fn.node)
            if ncd:
                changed_alias = True
                log.append(f"{fn.qualname} (record-like dict with constant keys: {ncd} loop(s) unrolled / replaced by locals)")
            nbl = unroll_built_list_loops(fn.node)
            if nbl:
                changed_alias = True
                log.append(f"{fn.qualname} ({nbl} loop(s) over a list built from literals unrolled)")
            nl = unroll_literal_for_loops(fn.node)
            if nl:
                changed_alias = True
                log.append(f"{fn.qualname} ({nl} for-loop(s) over a literal tuple unrolled)")
            nw = counted_loops_to_while(fn.node)
            if nw:
                changed_alias = True
                log.append(f"{fn.qualname} ({nw} counted loop(s) opening with guard breaks rewritten as while loops)")
            nd = nested_defs_to_lambdas(fn.node)
            if nd:
                changed_alias = True
                log.append(f"{fn.qualname} ({nd} nested one-line def(s) rewritten as lambdas)")
            if flip_empty_branches(fn.node):
                changed_alias = True
            nb = beta_reduce_local_lambdas(fn.node)
            if nb:
                changed_alias = True
                log.append(f"{fn.qualname} ({nb} local lambda(s) that are only called replaced by their bodies)")
        ng = unroll_literal_generators(fn.node)
        if ng:
            changed_alias = True
            log.append(f"{fn.qualname} ({ng} any/all over a literal tuple unrolled)")
        def _simple_target(t_):
            return isinstance(t_, ast.Name) or (isinstance(t_, ast.Attribute) and isinstance(t_.value, ast.Name)) or (isinstance(t_, ast.Subscript) and isinstance(t_.value, (ast.Name, ast.Attribute)) and isinstance(t_.slice, ast.Constant))

        if any(isinstance(n, ast.Assign) and isinstance(n.value, ast.IfExp) and len(n.targets) == 1 and _simple_target(n.targets[0]) for n in ast.walk(fn.node)) and body_hash(fn.node) not in _inventory()[1]:
            # ``x = a if c else b`` at statement level -> if/else (only in functions that differ from the reference tree:
            # the rules were written against the reference spelling)
            class _S(_IfExpSplitter):
                def visit_Assign(self, node):
                    if isinstance(node.value, ast.IfExp) and len(node.targets) == 1 and _simple_target(node.targets[0]):
                        return super().visit_Assign(node)
                    return node

            _S().visit(fn.node)
            ast.fix_missing_locations(fn.node)
            changed_alias = True
            log.append(f"{fn.qualname} (conditional-expression assignments split)")
    if changed_alias:
        trees = {m.relpath: m.tree for m in prog.modules.values()}
        prog = Program(prog.root, override_trees=trees)
        # unrolled loops may have produced lists built in instalments / literal tuples: one more aggregate pass
        prog, agg2 = flatten_aggregates(prog)
        log += [x for x in agg2 if x not in log]
        # the per-copy locals that unrolling / record-like dicts introduced (``val__u1_3 = fields__d1__iterations``) forward
        # to their uses like aggregate fields do
        from .aggregates import _forward_fields, _propagate_field_copies

        made = {}
        for fn in prog.functions():
            if body_hash(fn.node) in _inventory()[1]:
                continue
            ns = {n.id for n in ast.walk(fn.node) if isinstance(n, ast.Name) and ("__u" in n.id or "__d" in n.id)}
            if ns:
                made[id(fn.node)] = ns
        if made and (_propagate_field_copies(prog, made) + _forward_fields(prog, made)):
            for m in prog.modules.values():
                ast.fix_missing_locations(m.tree)
            trees = {m.relpath: m.tree for m in prog.modules.values()}
            prog = Program(prog.root, override_trees=trees)
    # tuple assignments from a literal tuple (what an unrolled generator on the right-hand side leaves) one by one
    n_split = 0
    for fn in prog.functions():
        if body_hash(fn.node) not in _inventory()[1]:
            k_ = split_parallel_assign(fn.node)
            if k_:
                n_split += k_
                log.append(f"{fn.qualname} ({k_} tuple assignment(s) from a literal tuple split)")
    if n_split:
        trees = {m.relpath: m.tree for m in prog.modules.values()}
        prog = Program(prog.root, override_trees=trees)
    # shape normalisation of the candidate filter (the stage recogniser expects one result variable and one exit)
    try:
        from .roles import Roles

        ff = Roles(prog).filter_fn
    except Exception:
        ff = None
    if ff is not None and body_hash(ff.node) not in _inventory()[1]:
        ic = index_chain_to_rows(ff.node)
        if ic:
            log.append(f"{ff.qualname} (rows tracked through an index vector: {ic})")
            trees = {m.relpath: m.tree for m in prog.modules.values()}
            prog = Program(prog.root, override_trees=trees)
            try:
                ff = Roles(prog).filter_fn
            except Exception:
                ff = None
    if ff is not None and single_exit_form(ff.node):
        log.append(f"{ff.qualname} (single-exit form)")
        trees = {m.relpath: m.tree for m in prog.modules.values()}
        prog = Program(prog.root, override_trees=trees)
    # CFGs built during normalisation (role discovery) describe trees that were rewritten afterwards
    from . import cfg as _cfg

    _cfg._cache.clear()
    return prog, log
