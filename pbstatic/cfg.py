"""A2 -- statement-level control-flow graphs with dominance queries.

One CFG per function.  Nodes are simple statements and the headers of compound
statements (``if``/``while`` tests, ``for`` iteration headers, ``with`` items,
``except`` handler heads).  Edges carry a label: ``T``/``F`` out of tests,
``exc`` for the exceptional edges from every statement of a ``try`` body to its
handlers, ``""`` for fall-through.  Two exits: EXIT (return / fall off the
end) and RAISE (explicit ``raise`` that no enclosing handler catches).
Implicit exceptions outside ``try`` bodies are not modelled.
"""
from __future__ import annotations

import ast
from typing import Callable, Dict, Iterable, List, Optional, Set, Tuple

import networkx as nx

BROAD = {"Exception", "BaseException"}


class Node:
    __slots__ = ("id", "kind", "stmt", "expr", "lineno")

    def __init__(self, id, kind, stmt=None, expr=None):
        self.id = id
        self.kind = kind  # entry exit raise stmt test for with handler
        self.stmt = stmt
        self.expr = expr
        self.lineno = getattr(stmt, "lineno", None) if stmt is not None else None

    def __repr__(self):
        return f"<{self.kind}#{self.id}@{self.lineno}>"


class CFG:
    def __init__(self, fn_node: ast.AST):
        self.fn_node = fn_node
        self.g = nx.DiGraph()
        self.nodes: List[Node] = []
        self._owner: Dict[int, int] = {}  # id(ast node) -> cfg node id
        self._stmt_head: Dict[int, int] = {}  # id(stmt) -> head cfg node id
        self.loops: Dict[int, Set[int]] = {}  # loop header id -> body node ids
        self._loop_stack: List[Tuple[int, List]] = []  # (header, break sources)
        self._handler_stack: List[Tuple[List[int], bool]] = []  # (handler heads, broad?)
        self._try_nodes: List[List[int]] = []
        self.entry = self._new("entry")
        self.exit = self._new("exit")
        self.raise_exit = self._new("raise")
        body = fn_node.body if not isinstance(fn_node, ast.Lambda) else [ast.Return(value=fn_node.body)]
        outs = self._block(body, [(self.entry.id, "")])
        for src, lab in outs:
            self._edge(src, self.exit.id, lab)
        self._idom = None
        self._ipdom = None
        self._ipdom_any = None

    # -------------------------------------------------------------- building
    def _new(self, kind, stmt=None, expr=None) -> Node:
        n = Node(len(self.nodes), kind, stmt, expr)
        self.nodes.append(n)
        self.g.add_node(n.id)
        for lst in self._try_nodes:
            lst.append(n.id)
        for hdr, _ in self._loop_stack:
            self.loops[hdr].add(n.id)
        return n

    def _edge(self, a: int, b: int, label: str = ""):
        if self.g.has_edge(a, b):
            self.g[a][b]["labels"].add(label)
        else:
            self.g.add_edge(a, b, labels={label})

    def _own(self, node: Node, *asts):
        for a in asts:
            if a is None:
                continue
            for sub in ast.walk(a):
                self._owner.setdefault(id(sub), node.id)

    def _connect(self, preds, node: Node):
        for src, lab in preds:
            self._edge(src, node.id, lab)

    def _raise_targets(self) -> List[int]:
        """Where an explicit raise at the current position goes."""
        out = []
        for heads, broad in reversed(self._handler_stack):
            out.extend(heads)
            if broad:
                return out
        out.append(self.raise_exit.id)
        return out

    def _block(self, stmts, preds):
        for s in stmts:
            preds = self._stmt(s, preds)
        return preds

    def _stmt(self, s, preds):
        if isinstance(s, ast.If):
            t = self._new("test", s, s.test)
            self._stmt_head[id(s)] = t.id
            self._own(t, s.test)
            self._connect(preds, t)
            outs = self._block(s.body, [(t.id, "T")])
            outs += self._block(s.orelse, [(t.id, "F")]) if s.orelse else [(t.id, "F")]
            return outs
        if isinstance(s, ast.While):
            t = self._new("test", s, s.test)
            self._stmt_head[id(s)] = t.id
            self._own(t, s.test)
            self._connect(preds, t)
            self.loops[t.id] = set()
            self._loop_stack.append((t.id, []))
            outs = self._block(s.body, [(t.id, "T")])
            for src, lab in outs:
                self._edge(src, t.id, lab)
            _, breaks = self._loop_stack.pop()
            const_true = isinstance(s.test, ast.Constant) and bool(s.test.value)
            after = [] if const_true else [(t.id, "F")]
            if s.orelse:
                after = self._block(s.orelse, after)
            return after + breaks
        if isinstance(s, (ast.For, ast.AsyncFor)):
            h = self._new("for", s, s.iter)
            self._stmt_head[id(s)] = h.id
            self._own(h, s.iter, s.target)
            self._connect(preds, h)
            self.loops[h.id] = set()
            self._loop_stack.append((h.id, []))
            outs = self._block(s.body, [(h.id, "T")])
            for src, lab in outs:
                self._edge(src, h.id, lab)
            _, breaks = self._loop_stack.pop()
            after = [(h.id, "F")]
            if s.orelse:
                after = self._block(s.orelse, after)
            return after + breaks
        if isinstance(s, (ast.With, ast.AsyncWith)):
            w = self._new("with", s)
            self._stmt_head[id(s)] = w.id
            for it in s.items:
                self._own(w, it.context_expr, it.optional_vars)
            self._connect(preds, w)
            return self._block(s.body, [(w.id, "")])
        if isinstance(s, ast.Try) or s.__class__.__name__ == "TryStar":
            return self._try(s, preds)
        # simple statements
        n = self._new("stmt", s)
        self._stmt_head[id(s)] = n.id
        self._own(n, s)
        self._connect(preds, n)
        if isinstance(s, ast.Return):
            self._edge(n.id, self.exit.id, "")
            return []
        if isinstance(s, ast.Raise):
            for t in self._raise_targets():
                self._edge(n.id, t, "exc")
            return []
        if isinstance(s, ast.Break):
            if self._loop_stack:
                self._loop_stack[-1][1].append((n.id, ""))
            return []
        if isinstance(s, ast.Continue):
            if self._loop_stack:
                self._edge(n.id, self._loop_stack[-1][0], "")
            return []
        return [(n.id, "")]

    def _try(self, s, preds):
        heads = []
        broad = False
        hnodes = []
        for h in s.handlers:
            hn = self._new("handler", h, h.type)
            self._stmt_head[id(h)] = hn.id
            self._own(hn, h.type)
            heads.append(hn.id)
            hnodes.append(hn)
            if h.type is None or (isinstance(h.type, ast.Name) and h.type.id in BROAD):
                broad = True
        # body
        self._handler_stack.append((heads, broad))
        collected: List[int] = []
        self._try_nodes.append(collected)
        body_outs = self._block(s.body, preds)
        self._try_nodes.pop()
        self._handler_stack.pop()
        for nid in collected:
            nd = self.nodes[nid]
            if nd.kind in ("handler",):
                continue
            if isinstance(nd.stmt, ast.Raise) and nd.kind == "stmt":
                continue  # already wired by _raise_targets
            for h in heads:
                self._edge(nid, h, "exc")
        # an exception may also arise before the first body statement completes:
        # the edge from the statement node itself covers that.
        outs = []
        if s.orelse:
            body_outs = self._block(s.orelse, body_outs)
        outs += body_outs
        for h, hn in zip(s.handlers, hnodes):
            outs += self._block(h.body, [(hn.id, "")])
        if s.finalbody:
            outs = self._block(s.finalbody, outs)
        return outs

    # --------------------------------------------------------------- queries
    def node_of(self, ast_node: ast.AST) -> Optional[Node]:
        i = self._owner.get(id(ast_node))
        if i is None:
            i = self._stmt_head.get(id(ast_node))
        return self.nodes[i] if i is not None else None

    def head_of(self, stmt: ast.AST) -> Optional[Node]:
        i = self._stmt_head.get(id(stmt))
        return self.nodes[i] if i is not None else None

    def succ(self, nid: int, label: Optional[str] = None) -> List[int]:
        out = []
        for b in self.g.successors(nid):
            if label is None or label in self.g[nid][b]["labels"]:
                out.append(b)
        return out

    def idom(self):
        if self._idom is None:
            self._idom = nx.immediate_dominators(self.g, self.entry.id)
        return self._idom

    def dominates(self, a: int, b: int) -> bool:
        """Every path entry -> b passes through a."""
        idom = self.idom()
        if b not in idom or a not in idom:
            return False
        x = b
        while True:
            if x == a:
                return True
            p = idom.get(x)
            if p is None or p == x:
                return False
            x = p

    def _pdom(self, any_exit: bool):
        attr = "_ipdom_any" if any_exit else "_ipdom"
        if getattr(self, attr) is None:
            r = self.g.reverse(copy=True)
            root = self.exit.id
            if any_exit:
                root = "END"
                r.add_edge("END", self.exit.id)
                r.add_edge("END", self.raise_exit.id)
            setattr(self, attr, (nx.immediate_dominators(r, root), root))
        return getattr(self, attr)

    def postdominates(self, b: int, a: int, any_exit: bool = False) -> bool:
        """Every path a -> normal EXIT (or any exit) passes through b."""
        ipd, root = self._pdom(any_exit)
        if a not in ipd:
            return True  # a cannot reach that exit at all: vacuous
        if b not in ipd:
            return False
        x = a
        while True:
            if x == b:
                return True
            p = ipd.get(x)
            if p is None or p == x:
                return False
            x = p

    def reachable(self, a: int, avoiding: Iterable[int] = (), skip_exc: bool = False, skip_edge=None) -> Set[int]:
        """``skip_edge(src_node, labels) -> bool``: edges proved irrelevant by the caller (e.g. the branch on which an
        optional callable is None) are not followed."""
        avoid = set(avoiding)
        seen, stack = set(), [a]
        first = True
        while stack:
            x = stack.pop()
            if x in seen:
                continue
            if x in avoid and not first:
                continue
            first = False
            seen.add(x)
            for y in self.g.successors(x):
                if skip_exc and self.g[x][y]["labels"] == {"exc"}:
                    continue
                if skip_edge is not None and skip_edge(self.nodes[x], self.g[x][y]["labels"]):
                    continue
                if y not in avoid:
                    stack.append(y)
        return seen

    def can_reach(self, a: int, b: int, avoiding: Iterable[int] = (), skip_exc: bool = False, skip_edge=None) -> bool:
        return b in self.reachable(a, avoiding, skip_exc, skip_edge)

    def in_loop(self, nid: int) -> List[int]:
        return [h for h, body in self.loops.items() if nid in body]

    def stmt_nodes(self) -> List[Node]:
        return [n for n in self.nodes if n.kind in ("stmt", "test", "for", "with", "handler")]

    def find_path(self, a: int, b: int, avoiding: Iterable[int] = ()) -> Optional[List[int]]:
        avoid = set(avoiding)
        prev = {a: None}
        q = [a]
        while q:
            x = q.pop(0)
            if x == b:
                out = []
                while x is not None:
                    out.append(x)
                    x = prev[x]
                return out[::-1]
            for y in self.g.successors(x):
                if y not in prev and y not in avoid:
                    prev[y] = x
                    q.append(y)
        return None

    def describe_path(self, path: List[int]) -> List[str]:
        out = []
        for nid in path:
            n = self.nodes[nid]
            if n.kind in ("entry", "exit", "raise"):
                out.append(n.kind.upper())
            else:
                out.append(f"{n.kind}@{n.lineno}")
        return out

    def acyclic_paths(self, a: int, b: int, cap: int = 10000) -> List[List[int]]:
        """Bounded enumeration of simple paths a -> b (thorough tier)."""
        out = []
        for p in nx.all_simple_paths(self.g, a, b):
            out.append(p)
            if len(out) >= cap:
                break
        return out


_cache: Dict[int, CFG] = {}


def cfg_of(fn) -> CFG:
    """``fn`` is a model.FunctionInfo or a raw ast function node."""
    node = getattr(fn, "node", fn)
    k = id(node)
    if k not in _cache:
        _cache[k] = CFG(node)
    return _cache[k]


def enclosing_tests(prog, fn, node: ast.AST) -> List[Tuple[ast.AST, bool]]:
    """Syntactic guard: the (test, polarity) pairs of enclosing if/while
    statements, innermost last.  Early-exit complements are added by
    terms.guard_of (which uses the CFG)."""
    out = []
    child = node
    for p in prog.ancestors(node):
        if p is fn.node:
            break
        if isinstance(p, ast.If):
            if any(child is s for s in p.body):
                out.append((p.test, True))
            elif any(child is s for s in p.orelse):
                out.append((p.test, False))
        elif isinstance(p, ast.While):
            if any(child is s for s in p.body):
                out.append((p.test, True))
        elif isinstance(p, ast.IfExp):
            if child is p.body:
                out.append((p.test, True))
            elif child is p.orelse:
                out.append((p.test, False))
        elif isinstance(p, ast.BoolOp) and isinstance(p.op, ast.And):
            # short-circuit: later operands are evaluated only if earlier ones hold
            idx = next((i for i, v in enumerate(p.values) if v is child), None)
            if idx:
                for v in p.values[:idx]:
                    out.append((v, True))
        elif isinstance(p, ast.BoolOp) and isinstance(p.op, ast.Or):
            idx = next((i for i, v in enumerate(p.values) if v is child), None)
            if idx:
                for v in p.values[:idx]:
                    out.append((v, False))
        child = p
    return out[::-1]
