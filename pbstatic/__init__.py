"""pbstatic: repository-specific static analysis of acerbilab/pybads.

Nothing in this package imports or executes pybads.  Every verdict is computed
from the source text under $PBSTATIC_REPO (default /repo).
"""

__all__ = ["model", "cfg", "terms", "flow", "ini", "report", "roles"]
