"""A1 -- program model and call graph.

Parses every ``*.py`` under ``<repo>/pybads`` except ``pybads/testing/**`` and
builds: modules, classes (with bases and MRO inside the package), functions,
import resolution (absolute and relative, including package ``__init__``
re-exports), attribute types from constructor assignments and annotations,
call resolution and a package-level call graph.
"""
from __future__ import annotations

import ast
import os
from dataclasses import dataclass, field
from typing import Dict, Iterable, Iterator, List, Optional, Set, Tuple


class AnalysisError(Exception):
    """A public anchor vanished / a file does not parse: exit code 2."""


def repo_root() -> str:
    return os.environ.get("PBSTATIC_REPO", "/repo")


PKG = "pybads"


@dataclass
class FunctionInfo:
    module: "ModuleInfo"
    cls: Optional["ClassInfo"]
    node: ast.AST  # FunctionDef | Lambda
    name: str

    @property
    def qualname(self) -> str:
        if self.cls is not None:
            return f"{self.module.name}:{self.cls.name}.{self.name}"
        return f"{self.module.name}:{self.name}"

    @property
    def short(self) -> str:
        if self.cls is not None:
            return f"{self.cls.name}.{self.name}"
        return self.name

    @property
    def params(self) -> List[str]:
        a = self.node.args
        return [x.arg for x in list(a.posonlyargs) + list(a.args)] + (
            [a.vararg.arg] if a.vararg else []
        ) + [x.arg for x in a.kwonlyargs] + ([a.kwarg.arg] if a.kwarg else [])

    def param_annotation(self, name: str) -> Optional[ast.AST]:
        a = self.node.args
        for x in list(a.posonlyargs) + list(a.args) + list(a.kwonlyargs):
            if x.arg == name:
                return x.annotation
        return None

    def __hash__(self):
        return id(self.node)

    def __eq__(self, other):
        return isinstance(other, FunctionInfo) and other.node is self.node

    def loc(self, node: Optional[ast.AST] = None) -> str:
        n = node if node is not None else self.node
        return f"{self.module.relpath}:{getattr(n, 'lineno', '?')}"


@dataclass
class ClassInfo:
    module: "ModuleInfo"
    node: ast.ClassDef
    name: str
    methods: Dict[str, FunctionInfo] = field(default_factory=dict)
    base_exprs: List[ast.AST] = field(default_factory=list)
    bases: List["ClassInfo"] = field(default_factory=list)
    # attribute name -> ClassInfo (from ``self.a = Class(...)`` or annotations)
    attr_types: Dict[str, "ClassInfo"] = field(default_factory=dict)

    def mro(self) -> List["ClassInfo"]:
        out, seen = [], set()

        def walk(c):
            if id(c) in seen:
                return
            seen.add(id(c))
            out.append(c)
            for b in c.bases:
                walk(b)

        walk(self)
        return out

    def find_method(self, name: str) -> Optional[FunctionInfo]:
        for c in self.mro():
            if name in c.methods:
                return c.methods[name]
        return None

    def subclasses(self, prog: "Program") -> List["ClassInfo"]:
        return [c for c in prog.classes() if self in c.mro() and c is not self]

    def __hash__(self):
        return id(self.node)

    def __eq__(self, other):
        return isinstance(other, ClassInfo) and other.node is self.node


@dataclass
class ModuleInfo:
    name: str  # dotted
    path: str
    relpath: str
    tree: ast.Module
    source: str
    is_package: bool
    functions: Dict[str, FunctionInfo] = field(default_factory=dict)
    classes: Dict[str, ClassInfo] = field(default_factory=dict)
    # local name -> ("module", dotted) | ("symbol", dotted_module, symbol)
    imports: Dict[str, Tuple] = field(default_factory=dict)

    def segment(self, node: ast.AST) -> str:
        return ast.get_source_segment(self.source, node) or ""


class Program:
    def __init__(self, root: Optional[str] = None, override_trees: Optional[Dict[str, ast.Module]] = None):
        self.root = root or repo_root()
        self._override_trees = override_trees or {}
        self.pkg_dir = os.path.join(self.root, PKG)
        if not os.path.isdir(self.pkg_dir):
            raise AnalysisError(f"package directory {self.pkg_dir} not found")
        self.modules: Dict[str, ModuleInfo] = {}
        self._parents: Dict[int, ast.AST] = {}
        self._fn_of_node: Dict[int, FunctionInfo] = {}
        self._load()
        self._link()
        self._calls_cache: Dict[int, List] = {}
        self._graph = None

    # ------------------------------------------------------------------ load
    def _load(self):
        for dirpath, dirnames, filenames in os.walk(self.pkg_dir):
            rel = os.path.relpath(dirpath, self.root)
            parts = rel.split(os.sep)
            if "testing" in parts or "__pycache__" in parts:
                dirnames[:] = []
                continue
            dirnames.sort()
            for fn in sorted(filenames):
                if not fn.endswith(".py"):
                    continue
                path = os.path.join(dirpath, fn)
                relpath = os.path.relpath(path, self.root)
                is_pkg = fn == "__init__.py"
                modname = ".".join(parts if is_pkg else parts + [fn[:-3]])
                try:
                    with open(path, encoding="utf-8") as fh:
                        src = fh.read()
                    tree = self._override_trees.get(relpath) or ast.parse(src, filename=path)
                except (SyntaxError, OSError, UnicodeDecodeError) as e:
                    raise AnalysisError(f"cannot parse {relpath}: {e}")
                m = ModuleInfo(modname, path, relpath, tree, src, is_pkg)
                self.modules[modname] = m
                self._index_module(m)

    def _index_module(self, m: ModuleInfo):
        for parent in ast.walk(m.tree):
            for child in ast.iter_child_nodes(parent):
                self._parents[id(child)] = parent
        # textual order of the (possibly normalised) tree: an inlined statement
        # keeps the line number of the helper it came from, so "earlier in the
        # function" is decided on this pre-order index, never on lineno
        stack, k = [m.tree], 0
        while stack:
            n = stack.pop()
            n._ord = k
            k += 1
            stack.extend(reversed(list(ast.iter_child_nodes(n))))
        for node in m.tree.body:
            if isinstance(node, (ast.FunctionDef, ast.AsyncFunctionDef)):
                fi = FunctionInfo(m, None, node, node.name)
                m.functions[node.name] = fi
                self._own(fi)
            elif isinstance(node, ast.ClassDef):
                ci = ClassInfo(m, node, node.name, base_exprs=list(node.bases))
                m.classes[node.name] = ci
                for sub in node.body:
                    if isinstance(sub, (ast.FunctionDef, ast.AsyncFunctionDef)):
                        fi = FunctionInfo(m, ci, sub, sub.name)
                        ci.methods[sub.name] = fi
                        self._own(fi)
        # imports (module level and function level alike: names are unique enough)
        for node in ast.walk(m.tree):
            if isinstance(node, ast.Import):
                for a in node.names:
                    local = a.asname or a.name.split(".")[0]
                    target = a.name if a.asname else a.name.split(".")[0]
                    m.imports[local] = ("module", target)
            elif isinstance(node, ast.ImportFrom):
                base = self._resolve_from(m, node)
                for a in node.names:
                    local = a.asname or a.name
                    m.imports[local] = ("symbol", base, a.name)

    def _own(self, fi: FunctionInfo):
        for n in ast.walk(fi.node):
            self._fn_of_node.setdefault(id(n), fi)

    def _resolve_from(self, m: ModuleInfo, node: ast.ImportFrom) -> str:
        if node.level == 0:
            return node.module or ""
        parts = m.name.split(".")
        if not m.is_package:
            parts = parts[:-1]
        up = node.level - 1
        if up:
            parts = parts[:-up]
        if node.module:
            parts = parts + node.module.split(".")
        return ".".join(parts)

    # ------------------------------------------------------------------ link
    def _link(self):
        for c in self.classes():
            for b in c.base_exprs:
                r = self.resolve_name_expr(c.module, b)
                if isinstance(r, ClassInfo):
                    c.bases.append(r)
        for c in self.classes():
            for meth in c.methods.values():
                for node in ast.walk(meth.node):
                    tgt_val = None
                    if isinstance(node, ast.Assign) and len(node.targets) == 1:
                        tgt_val = (node.targets[0], node.value)
                    elif isinstance(node, ast.AnnAssign) and node.value is not None:
                        tgt_val = (node.target, node.value)
                        t = self._self_attr(node.target)
                        if t:
                            r = self.resolve_name_expr(c.module, node.annotation)
                            if isinstance(r, ClassInfo):
                                c.attr_types.setdefault(t, r)
                    if not tgt_val:
                        continue
                    t = self._self_attr(tgt_val[0])
                    if not t:
                        continue
                    v = tgt_val[1]
                    if isinstance(v, ast.Call):
                        r = self.resolve_name_expr(c.module, v.func)
                        if isinstance(r, ClassInfo):
                            c.attr_types[t] = r
                    elif isinstance(v, ast.Name):
                        ann = meth.param_annotation(v.id)
                        if ann is not None:
                            r = self.resolve_name_expr(c.module, ann)
                            if isinstance(r, ClassInfo):
                                c.attr_types.setdefault(t, r)

    @staticmethod
    def _self_attr(node: ast.AST) -> Optional[str]:
        if (
            isinstance(node, ast.Attribute)
            and isinstance(node.value, ast.Name)
            and node.value.id == "self"
        ):
            return node.attr
        return None

    # --------------------------------------------------------------- queries
    def classes(self) -> Iterator[ClassInfo]:
        for m in self.modules.values():
            yield from m.classes.values()

    def functions(self) -> Iterator[FunctionInfo]:
        for m in self.modules.values():
            yield from m.functions.values()
            for c in m.classes.values():
                yield from c.methods.values()

    def parent(self, node: ast.AST) -> Optional[ast.AST]:
        return self._parents.get(id(node))

    def ancestors(self, node: ast.AST) -> Iterator[ast.AST]:
        p = self.parent(node)
        while p is not None:
            yield p
            p = self.parent(p)

    def function_of(self, node: ast.AST) -> Optional[FunctionInfo]:
        return self._fn_of_node.get(id(node))

    def module(self, name: str) -> ModuleInfo:
        if name not in self.modules:
            raise AnalysisError(f"module {name} not found")
        return self.modules[name]

    def find_class(self, name: str) -> ClassInfo:
        hits = [c for c in self.classes() if c.name == name]
        if not hits:
            raise AnalysisError(f"public class {name} not found in package")
        return hits[0]

    def find_function(self, name: str, cls: Optional[str] = None) -> FunctionInfo:
        if cls:
            c = self.find_class(cls)
            f = c.find_method(name)
            if f is None:
                raise AnalysisError(f"method {cls}.{name} not found")
            return f
        hits = [f for m in self.modules.values() for f in m.functions.values() if f.name == name]
        if not hits:
            raise AnalysisError(f"function {name} not found in package")
        return hits[0]

    def try_function(self, name: str, cls: Optional[str] = None) -> Optional[FunctionInfo]:
        try:
            return self.find_function(name, cls)
        except AnalysisError:
            return None

    def lookup_symbol(self, modname: str, symbol: str, _depth=0):
        """Resolve ``from modname import symbol`` through re-exports."""
        if _depth > 6:
            return None
        m = self.modules.get(modname)
        if m is None:
            return ("external", f"{modname}.{symbol}")
        if symbol in m.classes:
            return m.classes[symbol]
        if symbol in m.functions:
            return m.functions[symbol]
        imp = m.imports.get(symbol)
        if imp:
            if imp[0] == "symbol":
                r = self.lookup_symbol(imp[1], imp[2], _depth + 1)
                if r is not None:
                    return r
            else:
                return self.modules.get(imp[1]) or ("external", imp[1])
        sub = self.modules.get(f"{modname}.{symbol}")
        if sub is not None:
            return sub
        return None

    def resolve_name_expr(self, m: ModuleInfo, expr: ast.AST):
        """Name / dotted attribute -> ClassInfo | FunctionInfo | ModuleInfo |
        ("external", dotted) | None"""
        if isinstance(expr, ast.Constant) and isinstance(expr.value, str):
            # string annotation
            try:
                expr = ast.parse(expr.value, mode="eval").body
            except SyntaxError:
                return None
        if isinstance(expr, ast.Name):
            if expr.id in m.classes:
                return m.classes[expr.id]
            if expr.id in m.functions:
                return m.functions[expr.id]
            imp = m.imports.get(expr.id)
            if imp:
                if imp[0] == "symbol":
                    return self.lookup_symbol(imp[1], imp[2])
                return self.modules.get(imp[1]) or ("external", imp[1])
            return None
        if isinstance(expr, ast.Attribute):
            base = self.resolve_name_expr(m, expr.value)
            if isinstance(base, ModuleInfo):
                return self.lookup_symbol(base.name, expr.attr)
            if isinstance(base, tuple) and base[0] == "external":
                return ("external", base[1] + "." + expr.attr)
            if isinstance(base, ClassInfo):
                return base.find_method(expr.attr)
            return None
        return None

    def external_name(self, m: ModuleInfo, expr: ast.AST) -> Optional[str]:
        """Dotted external name of a callee expression (``np.random.seed`` ->
        ``numpy.random.seed``), None when not an imported external."""
        r = self.resolve_name_expr(m, expr)
        if isinstance(r, tuple) and r[0] == "external":
            return r[1]
        return None

    # ------------------------------------------------------ local type facts
    def local_types(self, fn: FunctionInfo) -> Dict[str, ClassInfo]:
        """name -> class for parameters (annotation) and locals assigned from a
        constructor call.  Flow-insensitive; a name bound to two different
        classes maps to their nearest common package base if any."""
        cands: Dict[str, List[ClassInfo]] = {}
        m = fn.module
        a = fn.node.args
        for x in list(a.posonlyargs) + list(a.args) + list(a.kwonlyargs):
            if x.annotation is not None:
                r = self.resolve_name_expr(m, x.annotation)
                if isinstance(r, ClassInfo):
                    cands.setdefault(x.arg, []).append(r)
        if fn.cls is not None and fn.params and fn.params[0] == "self":
            cands.setdefault("self", []).append(fn.cls)
        # locals bound to class objects:  cls = A  /  cls = A if c else B  (then  obj = cls(...))
        class_vars: Dict[str, List[ClassInfo]] = {}
        for node in ast.walk(fn.node):
            if isinstance(node, ast.Assign) and len(node.targets) == 1 and isinstance(node.targets[0], ast.Name):
                vals = [node.value.body, node.value.orelse] if isinstance(node.value, ast.IfExp) else [node.value]
                rs = [self.resolve_name_expr(m, v) if isinstance(v, (ast.Name, ast.Attribute)) else None for v in vals]
                if rs and all(isinstance(r, ClassInfo) for r in rs):
                    class_vars.setdefault(node.targets[0].id, []).extend(rs)
                elif len(vals) == 1:
                    ct = self.class_table(fn, vals[0])
                    if ct is not None:
                        class_vars.setdefault(node.targets[0].id, []).extend(ct[0])
        for node in ast.walk(fn.node):
            if isinstance(node, ast.Assign) and len(node.targets) == 1:
                t = node.targets[0]
                if isinstance(t, ast.Name) and isinstance(node.value, ast.Call):
                    r = self.resolve_name_expr(m, node.value.func)
                    if isinstance(r, ClassInfo):
                        cands.setdefault(t.id, []).append(r)
                    elif isinstance(node.value.func, ast.Name) and node.value.func.id in class_vars:
                        cands.setdefault(t.id, []).extend(class_vars[node.value.func.id])
                    else:
                        ct = self.class_table(fn, node.value.func)
                        if ct is not None:
                            cands.setdefault(t.id, []).extend(ct[0])
        # locals bound to an attribute chain of known type:  f_logger = self.function_logger
        for _round in range(2):
            cur = {k: v[0] for k, v in cands.items() if v}
            for node in ast.walk(fn.node):
                if isinstance(node, ast.Assign) and len(node.targets) == 1 and isinstance(node.targets[0], ast.Name) and isinstance(node.value, (ast.Attribute, ast.Name)):
                    t = node.targets[0].id
                    if t in cands:
                        continue
                    r = self.expr_class(fn, node.value, cur)
                    if r is not None:
                        cands.setdefault(t, []).append(r)
        out = {}
        for k, lst in cands.items():
            common = None
            for c in lst[0].mro():
                if all(c in o.mro() for o in lst):
                    common = c
                    break
            if common is not None:
                out[k] = common
        return out

    def class_table(self, fn: FunctionInfo, expr: ast.AST):
        """``T[<index>]`` / ``T.get(<key>)`` where T is a literal tuple / list / dict of package classes (written in place,
        bound once in the function, at module level, or in the class body as ``self.T`` / ``cls.T`` / ``Class.T``)
        -> (list of ClassInfo in table order, keys or None, the table literal) or None."""
        if isinstance(expr, ast.Call) and isinstance(expr.func, ast.Attribute) and expr.func.attr == "get" and expr.args:
            t = expr.func.value
        elif isinstance(expr, ast.Subscript):
            t = expr.value
        else:
            return None
        lit = None
        if isinstance(t, (ast.Tuple, ast.List, ast.Dict)):
            lit = t
        elif isinstance(t, ast.Name):
            defs = [n.value for n in ast.walk(fn.node) if isinstance(n, ast.Assign) and len(n.targets) == 1 and isinstance(n.targets[0], ast.Name) and n.targets[0].id == t.id]
            stores = [n for n in ast.walk(fn.node) if isinstance(n, ast.Name) and n.id == t.id and not isinstance(n.ctx, ast.Load)]
            if len(defs) == 1 and len(stores) == 1:
                lit = defs[0]
            elif not stores and t.id not in fn.params:
                for st in fn.module.tree.body:
                    if isinstance(st, ast.Assign) and len(st.targets) == 1 and isinstance(st.targets[0], ast.Name) and st.targets[0].id == t.id:
                        lit = st.value
        elif isinstance(t, ast.Attribute) and isinstance(t.value, ast.Name):
            owner = None
            if t.value.id in ("self", "cls") and fn.cls is not None:
                owner = fn.cls
            else:
                r = self.resolve_name_expr(fn.module, t.value)
                owner = r if isinstance(r, ClassInfo) else None
            if owner is not None:
                # a class-body constant that no method re-binds
                rebound = any(
                    isinstance(n, ast.Attribute) and n.attr == t.attr and not isinstance(n.ctx, ast.Load)
                    for c in self.classes()
                    for n in ast.walk(c.node)
                )
                if not rebound:
                    for c in owner.mro():
                        hit = [st.value for st in c.node.body if isinstance(st, ast.Assign) and len(st.targets) == 1 and isinstance(st.targets[0], ast.Name) and st.targets[0].id == t.attr]
                        if hit:
                            lit = hit[-1]
                            break
        if isinstance(lit, ast.Dict):
            elts, keys = lit.values, lit.keys
        elif isinstance(lit, (ast.Tuple, ast.List)):
            elts, keys = lit.elts, None
        else:
            return None
        rs = [self.resolve_name_expr(fn.module, e) if isinstance(e, (ast.Name, ast.Attribute)) else None for e in elts]
        if not rs or not all(isinstance(r, ClassInfo) for r in rs):
            return None
        return rs, keys, lit

    def expr_class(self, fn: FunctionInfo, expr: ast.AST, ltypes=None) -> Optional[ClassInfo]:
        """Static class of an expression, when inferable."""
        if ltypes is None:
            ltypes = self.local_types(fn)
        if isinstance(expr, ast.Name):
            return ltypes.get(expr.id)
        if isinstance(expr, ast.Attribute):
            base = self.expr_class(fn, expr.value, ltypes)
            if base is not None:
                for c in base.mro():
                    if expr.attr in c.attr_types:
                        return c.attr_types[expr.attr]
            return None
        if isinstance(expr, ast.Call):
            r = self.resolve_name_expr(fn.module, expr.func)
            if isinstance(r, ClassInfo):
                return r
        return None

    # ------------------------------------------------------- call resolution
    def resolve_call(self, fn: FunctionInfo, call: ast.Call, ltypes=None) -> List:
        """-> list of FunctionInfo (package callees; several when the receiver
        class has overriding subclasses) or [("external", dotted)] or []."""
        if ltypes is None:
            ltypes = self._ltypes(fn)
        f = call.func
        m = fn.module
        # super().__init__(...)
        if (
            isinstance(f, ast.Attribute)
            and isinstance(f.value, ast.Call)
            and isinstance(f.value.func, ast.Name)
            and f.value.func.id == "super"
            and fn.cls is not None
        ):
            for b in fn.cls.mro()[1:]:
                if f.attr in b.methods:
                    return [b.methods[f.attr]]
            return []
        r = self.resolve_name_expr(m, f) if isinstance(f, (ast.Name, ast.Attribute)) else None
        if isinstance(r, FunctionInfo):
            return [r]
        if isinstance(r, ClassInfo):
            init = r.find_method("__init__")
            return [init] if init else []
        if isinstance(r, tuple):
            return [r]
        # method on a typed receiver
        if isinstance(f, ast.Attribute):
            rc = self.expr_class(fn, f.value, ltypes)
            if rc is not None:
                d = self._dispatch(rc, f.attr)
                if d:
                    return d
        # calling an instance: obj(...) -> __call__
        if isinstance(f, (ast.Name, ast.Attribute)):
            rc = self.expr_class(fn, f, ltypes)
            if rc is not None:
                return self._dispatch(rc, "__call__")
        return []

    def _dispatch(self, rc: ClassInfo, name: str) -> List[FunctionInfo]:
        out = []
        base = rc.find_method(name)
        if base is not None:
            out.append(base)
        for sc in rc.subclasses(self):
            mth = sc.find_method(name)
            if mth is not None and mth not in out:
                out.append(mth)
        return out

    def _ltypes(self, fn):
        key = id(fn.node)
        c = getattr(self, "_lt_cache", None)
        if c is None:
            c = self._lt_cache = {}
        if key not in c:
            c[key] = self.local_types(fn)
        return c[key]

    def calls_in(self, fn: FunctionInfo) -> List[Tuple[ast.Call, List]]:
        key = id(fn.node)
        if key not in self._calls_cache:
            out = []
            lt = self._ltypes(fn)
            for node in ast.walk(fn.node):
                if isinstance(node, ast.Call):
                    out.append((node, self.resolve_call(fn, node, lt)))
            self._calls_cache[key] = out
        return self._calls_cache[key]

    def call_graph(self):
        if self._graph is None:
            g: Dict[FunctionInfo, Set[FunctionInfo]] = {}
            for fn in self.functions():
                s = g.setdefault(fn, set())
                for _call, targets in self.calls_in(fn):
                    for t in targets:
                        if isinstance(t, FunctionInfo):
                            s.add(t)
            self._graph = g
        return self._graph

    def reachable_from(self, fn: FunctionInfo, avoiding: Iterable[FunctionInfo] = ()) -> Set[FunctionInfo]:
        g = self.call_graph()
        avoid = set(avoiding)
        seen, stack = set(), [fn]
        while stack:
            x = stack.pop()
            if x in seen or x in avoid:
                continue
            seen.add(x)
            stack.extend(g.get(x, ()))
        return seen

    def call_path(self, src: FunctionInfo, dst: FunctionInfo) -> Optional[List[FunctionInfo]]:
        g = self.call_graph()
        prev = {src: None}
        queue = [src]
        while queue:
            x = queue.pop(0)
            if x == dst:
                path = []
                while x is not None:
                    path.append(x)
                    x = prev[x]
                return path[::-1]
            for y in sorted(g.get(x, ()), key=lambda f: f.qualname):
                if y not in prev:
                    prev[y] = x
                    queue.append(y)
        return None

    def callers_of(self, fn: FunctionInfo) -> List[Tuple[FunctionInfo, ast.Call]]:
        out = []
        for f in self.functions():
            for call, targets in self.calls_in(f):
                if fn in targets:
                    out.append((f, call))
        return out

    def resolution_stats(self) -> Dict[str, int]:
        tot = res = ext = 0
        for fn in self.functions():
            for _c, t in self.calls_in(fn):
                tot += 1
                if any(isinstance(x, FunctionInfo) for x in t):
                    res += 1
                elif t:
                    ext += 1
        return {"calls": tot, "resolved_package": res, "resolved_external": ext, "unresolved": tot - res - ext}

    def inventory(self) -> Dict:
        fns = list(self.functions())
        return {
            "modules": len(self.modules),
            "classes": len(list(self.classes())),
            "functions": len(fns),
            **self.resolution_stats(),
        }


def bind_args(callee: FunctionInfo, call: ast.Call, bound_method: bool = None) -> Dict[str, ast.AST]:
    """Map callee parameter names to the argument expressions of ``call``.
    ``self`` is skipped for methods called through an instance or a class
    constructor."""
    params = list(callee.params)
    a = callee.node.args
    if bound_method is None:
        bound_method = callee.cls is not None and bool(params) and params[0] in ("self", "cls")
    if bound_method:
        params = params[1:]
    out: Dict[str, ast.AST] = {}
    for i, arg in enumerate(call.args):
        if isinstance(arg, ast.Starred):
            break
        if i < len(params):
            out[params[i]] = arg
    for kw in call.keywords:
        if kw.arg is not None:
            out[kw.arg] = kw.value
    return out


def param_default(callee: FunctionInfo, name: str) -> Optional[ast.AST]:
    a = callee.node.args
    pos = list(a.posonlyargs) + list(a.args)
    defaults = [None] * (len(pos) - len(a.defaults)) + list(a.defaults)
    for p, d in zip(pos, defaults):
        if p.arg == name:
            return d
    for p, d in zip(a.kwonlyargs, a.kw_defaults):
        if p.arg == name:
            return d
    return None
