"""Normal forms of *quantified array predicates* used by validators.

A raise condition such as

    np.any(x0 < lb) or np.any(x0 > ub)
    np.any(np.invert(ordidx))             # ordidx = (lb <= plb) & (plb < pub) & (pub <= ub)
    not (np.all(a <= b) and np.all(b < c))

is turned into a boolean formula over atoms ``ANY(e)`` / ``ALL(e)`` where ``e``
is an element-wise formula (comparison atoms with orientation normalised,
``isfinite`` style predicates, and/or/not).  ``ANY`` distributes over ``or`` and
``ALL`` over ``and``; ``not ANY(e)`` is ``ALL(not e)``.  Local names that hold
masks are expanded through their (unique) reaching definition.

Formulas are nested tuples:
  ("or", frozenset)  ("and", frozenset)  ("any", elem)  ("all", elem)  ("atom", text)
  elem: ("cmp", rel, lhs, rhs) | ("pred", name, arg, positive) | ("and", fs) | ("or", fs) | ("opaque", text, positive)
"""
from __future__ import annotations

import ast
from typing import Callable, Optional

from .terms import call_name, canon

_NEGREL = {"<": ">=", "<=": ">", ">": "<=", ">=": "<", "==": "!=", "!=": "=="}
_OPS = {ast.Lt: "<", ast.LtE: "<=", ast.Gt: ">", ast.GtE: ">=", ast.Eq: "==", ast.NotEq: "!="}


def _cmp(rel, l, r):
    if rel == ">":
        rel, l, r = "<", r, l
    elif rel == ">=":
        rel, l, r = "<=", r, l
    if rel in ("==", "!=") and r < l:
        l, r = r, l
    return ("cmp", rel, l, r)


def _mk(kind, parts):
    flat = set()
    for p in parts:
        if p[0] == kind:
            flat |= set(p[1])
        else:
            flat.add(p)
    if len(flat) == 1:
        return next(iter(flat))
    return (kind, frozenset(flat))


class Normaliser:
    """``nan_strict``: the negation of an *ordering* comparison is kept as
    ``not(a <= b)`` instead of being rewritten to ``b < a`` - the two differ exactly
    when an operand is NaN (every ordering comparison with NaN is False), which
    matters for validators that must reject NaN bounds."""

    def __init__(self, resolve: Optional[Callable[[ast.Name], Optional[ast.AST]]] = None, rename: Optional[Callable[[str], str]] = None,
                 inline: Optional[Callable[[ast.Call], Optional[ast.AST]]] = None, nan_strict: bool = False):
        self.resolve = resolve or (lambda n: None)
        self.rename = rename or (lambda s: s)
        self.inline = inline
        self.nan_strict = nan_strict
        self._depth = 0

    def term(self, e) -> str:
        return self.rename(canon(e))

    # element-wise level ---------------------------------------------------
    def elem(self, e, pos=True):
        if isinstance(e, ast.UnaryOp) and isinstance(e.op, (ast.Invert, ast.Not)):
            return self.elem(e.operand, not pos)
        n = call_name(e) if isinstance(e, ast.Call) else None
        if n in ("np.invert", "np.logical_not") and e.args:
            return self.elem(e.args[0], not pos)
        if n in ("np.logical_and", "np.logical_or") and len(e.args) == 2:
            is_and = (n == "np.logical_and") == pos
            return _mk("and" if is_and else "or", [self.elem(a, pos) for a in e.args])
        if isinstance(e, ast.BinOp) and isinstance(e.op, (ast.BitAnd, ast.BitOr)):
            is_and = isinstance(e.op, ast.BitAnd) == pos
            return _mk("and" if is_and else "or", [self.elem(e.left, pos), self.elem(e.right, pos)])
        if isinstance(e, ast.BoolOp):
            is_and = isinstance(e.op, ast.And) == pos
            return _mk("and" if is_and else "or", [self.elem(v, pos) for v in e.values])
        if isinstance(e, ast.Compare) and len(e.ops) == 1 and type(e.ops[0]) in _OPS:
            rel = _OPS[type(e.ops[0])]
            l, r = e.left, e.comparators[0]
            # comparison of two predicate masks: isfinite(a) != isfinite(b); a mask kept in a local is looked up
            if rel in ("==", "!=") and all(isinstance(x, (ast.Call, ast.Name)) for x in (l, r)) and self._depth < 6:
                rl = [(self.resolve(x) if isinstance(x, ast.Name) else x) for x in (l, r)]
                if all(isinstance(x, ast.Call) and call_name(x) in ("np.isfinite", "np.isinf", "np.isnan") for x in rl):
                    l, r = rl
            if rel in ("==", "!=") and all(isinstance(x, ast.Call) and call_name(x) in ("np.isfinite", "np.isinf", "np.isnan") for x in (l, r)):
                a, b = self.elem(l, True), self.elem(r, True)
                same = (rel == "==") == pos
                # (not p) != (not q)  is  p != q ;  (not p) != q  is  p == q : predicates made positive
                for _ in (0, 1):
                    if a[0] == "pred" and a[3] is False:
                        a, same = (a[0], a[1], a[2], True), not same
                    a, b = b, a
                return ("iff" if same else "xor", frozenset([a, b]))
            if not pos:
                if self.nan_strict and rel in ("<", "<=", ">", ">="):
                    return ("not", _cmp(rel, self.term(l), self.term(r)))
                rel = _NEGREL[rel]
            return _cmp(rel, self.term(l), self.term(r))
        if n in ("np.isfinite", "np.isreal", "np.isnan", "np.isinf", "np.isscalar") and e.args:
            name = n.split(".")[1]
            if name == "isinf":  # for validated non-NaN bounds: isinf == not isfinite
                return ("pred", "isfinite", self.term(e.args[0]), not pos)
            return ("pred", name, self.term(e.args[0]), pos)
        if isinstance(e, ast.Name) and self._depth < 6:
            d = self.resolve(e)
            if d is not None:
                self._depth += 1
                try:
                    return self.elem(d, pos)
                finally:
                    self._depth -= 1
        if isinstance(e, ast.Call) and self.inline is not None and self._depth < 6:
            d = self.inline(e)
            if d is not None:
                self._depth += 1
                try:
                    return self.elem(d, pos)
                finally:
                    self._depth -= 1
        return ("opaque", self.term(e), pos)

    # quantified level -------------------------------------------------------
    def quant(self, e, pos=True):
        if isinstance(e, ast.UnaryOp) and isinstance(e.op, ast.Not):
            return self.quant(e.operand, not pos)
        if isinstance(e, ast.BoolOp):
            is_and = isinstance(e.op, ast.And) == pos
            return _mk("and" if is_and else "or", [self.quant(v, pos) for v in e.values])
        n = call_name(e) if isinstance(e, ast.Call) else None
        if n in ("bool", "np.bool_") and len(e.args) == 1 and not e.keywords:
            return self.quant(e.args[0], pos)  # truth value of a reduction, made explicit
        if n in ("np.any", "np.all", "any", "all") and e.args and not e.keywords and len(e.args) == 1:
            a0 = e.args[0]
            # a predicate over stacked arrays, any(isfinite(concatenate([A, B]))) = any(isfinite(A)) or any(isfinite(B))
            if isinstance(a0, ast.Call) and call_name(a0) in ("np.isfinite", "np.isinf", "np.isnan") and len(a0.args) == 1 and isinstance(a0.args[0], (ast.Call, ast.List, ast.Tuple)):
                inner = a0.args[0]
                parts = None
                if isinstance(inner, (ast.List, ast.Tuple)):
                    parts = inner.elts
                elif call_name(inner) in ("np.concatenate", "np.vstack", "np.hstack", "np.stack", "np.array", "np.asarray", "np.row_stack", "np.column_stack") and inner.args and isinstance(inner.args[0], (ast.List, ast.Tuple)):
                    parts = inner.args[0].elts
                if parts and len(parts) >= 2:
                    mk = lambda p_: ast.Call(func=e.func, args=[ast.Call(func=a0.func, args=[p_], keywords=[])], keywords=[])
                    bo = ast.BoolOp(op=ast.Or() if n.endswith("any") else ast.And(), values=[mk(p_) for p_ in parts])
                    return self.quant(bo, pos)
            is_any = (n.endswith("any")) == pos
            el = self.elem(e.args[0], pos)
            return self._dist("any" if is_any else "all", el)
        if isinstance(e, ast.Call) and isinstance(e.func, ast.Attribute) and e.func.attr in ("any", "all") and not e.args:
            is_any = (e.func.attr == "any") == pos
            el = self.elem(e.func.value, pos)
            return self._dist("any" if is_any else "all", el)
        if isinstance(e, ast.Name) and self._depth < 6:
            d = self.resolve(e)
            if d is not None:
                self._depth += 1
                try:
                    return self.quant(d, pos)
                finally:
                    self._depth -= 1
        if isinstance(e, ast.Compare) and len(e.ops) == 1 and type(e.ops[0]) in _OPS:
            rel = _OPS[type(e.ops[0])]
            if not pos:
                rel = _NEGREL[rel]
            c = _cmp(rel, self.term(e.left), self.term(e.comparators[0]))
            return ("atom", c)
        return ("atom", ("opaque", self.term(e), pos))

    def _dist(self, q, el):
        if q == "any" and el[0] == "or":
            return _mk("or", [self._dist("any", x) for x in el[1]])
        if q == "all" and el[0] == "and":
            return _mk("and", [self._dist("all", x) for x in el[1]])
        return (q, el)


def absorb_nan_guard(f):
    """``(<v is not entirely NaN>) and (ANY[v < a] or ANY[b < v] ...)`` is the second factor alone: an ordering comparison
    that holds somewhere has a non-NaN operand there, so v is not all NaN.  The first factor is recognised as a
    disjunction containing ANY[not isnan(v)] (a dtype test or-ed to it only widens it)."""
    if f[0] != "and":
        return f
    parts = list(f[1])
    for p in parts:
        vs = {d[1][2] for d in (list(p[1]) if p[0] == "or" else [p]) if d[0] == "any" and d[1][0] == "pred" and d[1][1] == "isnan" and d[1][3] is False}
        if not vs:
            continue
        rest = [q for q in parts if q is not p]
        ok = bool(rest)
        for q in rest:
            for d in (list(q[1]) if q[0] == "or" else [q]):
                if not (d[0] == "any" and d[1][0] == "cmp" and d[1][1] in ("<", "<=") and (d[1][2] in vs or d[1][3] in vs)):
                    ok = False
        if ok:
            return _mk("and", rest) if len(rest) > 1 else rest[0]
    return f


def top_disjuncts(f):
    return list(f[1]) if f[0] == "or" else [f]


def top_conjuncts(f):
    return list(f[1]) if f[0] == "and" else [f]


def show(f) -> str:
    k = f[0]
    if k in ("or", "and", "xor", "iff"):
        return "(" + f" {k} ".join(sorted(show(x) for x in f[1])) + ")"
    if k in ("any", "all"):
        return f"{k.upper()}[{show(f[1])}]"
    if k == "atom":
        return show(f[1])
    if k == "cmp":
        return f"{f[2]} {f[1]} {f[3]}"
    if k == "not":
        return f"not({show(f[1])})"
    if k == "pred":
        return ("" if f[3] else "not ") + f"{f[1]}({f[2]})"
    if k == "opaque":
        return ("" if f[2] else "not ") + f[1]
    return str(f)
