"""Corpus of edits for the checker's self-validation (DESIGN.md section 8).

mutant = breaks a property (must be reported, exit 1);
twin   = behaviour-preserving rewrite (must stay silent, exit 0).
Anchors are source fragments of the current /repo; an edit whose anchor is
absent is skipped and counted, never failed.
"""
FL = "pybads/function_logger/function_logger.py"
CC = "pybads/function_logger/constraints_check.py"
VT = "pybads/variable_transformer/variables_transformer.py"
BA = "pybads/bads/bads.py"
GP = "pybads/bads/gaussian_process_train.py"
OR_ = "pybads/bads/optimize_result.py"
IH = "pybads/utils/iteration_history.py"
ES = "pybads/search/es_search.py"
SH = "pybads/search/search_hedge.py"
PM = "pybads/poll/poll_mads_2n.py"
ACQ = "pybads/acquisition_functions/acq_fcn_lcb.py"
OP = "pybads/bads/options.py"
SOB = "pybads/init_functions/init_sobol.py"
INI_A = "pybads/bads/option_configs/advanced_bads_options.ini"
INI_B = "pybads/bads/option_configs/basic_bads_options.ini"

ALL = []


def _add(kind, id, props, steps, desc, expect_text=None):
    if isinstance(props, str):
        props = [props]
    if isinstance(steps, tuple):
        steps = [steps]
    st = []
    for s in steps:
        d = {"file": s[0], "old": s[1], "new": s[2]}
        if len(s) > 3:
            d.update(s[3])
        st.append(d)
    ALL.append({"kind": kind, "id": id, "props": props, "steps": st, "desc": desc, "expect_text": expect_text})


def M(id, props, steps, desc, expect_text=None):
    _add("mutant", id, props, steps, desc, expect_text)


def T(id, props, steps, desc):
    _add("twin", id, props, steps, desc)


# =========================================================================== C12
M("c12-merge-elem-mask", "C12", (FL, "idx = np.argwhere(duplicate_flag.all(axis=1))[0, 0]", "idx = np.argwhere(duplicate_flag)[0, 0]"), "merge row from the element mask (the original defect)", "R1")
M("c12-norecord-elem-mask", "C12", (FL, "duplicate_flag = np.all(self.X == x, axis=1)", "duplicate_flag = self.X == x"), "no-record lookup on element mask", "R1")
M("c12-store-other-index", "C12", (FL, "self.Y_orig[self.Xn] = fval_orig", "self.Y_orig[self.Xn - 1] = fval_orig"), "value stored in the previous row", "R2")
M("c12-value-altered", "C12", (FL, "            fval = fval_orig\n", "            fval = np.round(fval_orig, 6)\n"), "stored value rounded", "R3")
M("c12-xorig-swapped", "C12", (FL, "self.X_orig[self.Xn] = x_orig.copy()", "self.X_orig[self.Xn] = x.copy()"), "original coordinates replaced by internal ones", "R3")
M("c12-growth-misses-nevals", "C12", (FL, "        self.n_evals = np.append(\n            self.n_evals, np.zeros([resize_amount, 1]), axis=0\n        )\n", ""), "n_evals not grown with the cache", "R4")
M("c12-growth-new-first", "C12", (FL, "self.Y = np.append(self.Y, np.full([resize_amount, 1], np.nan), axis=0)", "self.Y = np.append(np.full([resize_amount, 1], np.nan), self.Y, axis=0)"), "fresh rows prepended on growth", "R4")
M("c12-capacity-off-by-one", "C12", (FL, "if self.Xn > self.X_orig.shape[0] - 1:", "if self.Xn > self.X_orig.shape[0]:"), "cache grown one row too late", "R4")
M("c12-norecord-writes-Y", "C12", (FL, "                self.n_evals[last_idx] += 1\n                return fval_orig, last_idx", "                self.n_evals[last_idx] += 1\n                self.Y[last_idx] = fval_orig\n                return fval_orig, last_idx"), "no-record path overwrites the logged value", "R5")
M("c12-merge-unweighted", "C12", (FL, "self.Y[idx] = (tau_n * self.Y[idx] + tau_1 * fval_orig) / (\n                        tau_n + tau_1\n                    )", "self.Y[idx] = (self.Y[idx] + fval_orig) / 2"), "merge is a plain average", "R6")
M("c12-merge-sd-wrong", "C12", (FL, "self.S[idx] = 1 / np.sqrt(tau_n + tau_1)", "self.S[idx] = 1 / (tau_n + tau_1)"), "combined SD without square root", "R6")
M("c12-merge-no-count", "C12", (FL, "                    self.n_evals[idx] += 1\n                    return f_val, idx", "                    return f_val, idx"), "merge does not count the observation", "R7")
M("c12-call-passes-xorig-twice", "C12", (FL, "        fval, idx = self._record(\n            x_orig,\n            x,", "        fval, idx = self._record(\n            x_orig,\n            x_orig,"), "internal coordinates replaced in the record call", "R3")
T("c12-twin-merge-mask-np-all", "C12", (FL, "idx = np.argwhere(duplicate_flag.all(axis=1))[0, 0]", "idx = np.argwhere(np.all(duplicate_flag, axis=1))[0, 0]"), "np.all spelling of the row mask")
T("c12-twin-capacity-ge", "C12", (FL, "if self.Xn > self.X_orig.shape[0] - 1:", "if self.Xn >= self.X_orig.shape[0]:"), "equivalent capacity test")
T("c12-twin-tau-square", "C12", (FL, "tau_1 = 1 / fsd**2", "tau_1 = 1 / (fsd * fsd)"), "x*x for x**2")

# =========================================================================== C15
M("c15-neighbours-sd", "C15", (GP, "res_S = function_logger.S[sort_idx[0:ntrain]] ** 2", "res_S = function_logger.S[sort_idx[0:ntrain]]"), "neighbour selector returns SD (original defect)", "R1")
M("c15-add-sd", "C15", (GP, "np.atleast_2d(sd_new) ** 2", "np.atleast_2d(sd_new)"), "incremental add concatenates SD (original defect)", "R1")
M("c15-fevals-sd", "C15", (GP, "s2 = function_logger.S[function_logger.X_flag] ** 2", "s2 = function_logger.S[function_logger.X_flag]"), "initial training set uses SD", "R1")
M("c15-descending", "C15", (GP, "sort_idx = np.argsort(dist)  # Ascending sort", "sort_idx = np.argsort(-dist)"), "farthest points first", "R3")
M("c15-selector-mismatch", "C15", (GP, "return (U[sort_idx[0:ntrain]], Y[sort_idx[0:ntrain]], res_S)", "return (U[sort_idx[0:ntrain]], Y[0:ntrain], res_S)"), "targets not selected with the inputs", "R3")
M("c15-no-min-clamp", "C15", (GP, "            options[\"n_train_min\"],\n", ""), "minimum training size dropped", "R3")
M("c15-no-available-clamp", "C15", (GP, "    ntrain = np.minimum(ntrain, function_logger.X_max_idx +1)\n", ""), "size not clamped by the number of logged rows", "R3")
M("c15-dist-from-elsewhere", "C15", (GP, "    dist = udist(\n        U,\n        u,\n        gp.temporary_data[\"len_scale\"],", "    dist = udist(\n        U,\n        U[0],\n        gp.temporary_data[\"len_scale\"],"), "distance from the first log row, not the incumbent", "R3")
M("c15-lcb-plus", "C15", (ACQ, "z = f_mu - sqrt_beta * f_s", "z = f_mu + sqrt_beta * f_s"), "upper confidence bound", "R4")
M("c15-lcb-variance", "C15", (ACQ, "    f_s = np.sqrt(f_s2)\n", "    f_s = f_s2\n"), "variance used as SD in the acquisition", "R4")
M("c15-beta-t", "C15", (ACQ, "t = func_count + 1", "t = func_count + 2"), "schedule offset", "R4")
M("c15-beta-nu", "C15", (ACQ, "delta, nu = 0.1, 0.2", "delta, nu = 0.1, 0.4"), "nu doubled", "R4")
M("c15-gp-y-from-elsewhere", "C15", (GP, "    gp.y = np.concatenate((gp.y, np.atleast_2d(y_new)))", "    gp.y = np.concatenate((gp.y, np.atleast_2d(y_new) * 0.5))"), "GP target is not the logged value", "R2")
M("c15-add-wrong-pair", "C15", (BA, "                gp = add_and_update_gp(\n                    self.function_logger,\n                    gp,\n                    u_new,\n                    y_poll,", "                gp = add_and_update_gp(\n                    self.function_logger,\n                    gp,\n                    u_poll_best,\n                    y_poll,"), "GP add pairs the value with another point", "R2")
T("c15-twin-square", "C15", (GP, "res_S = function_logger.S[sort_idx[0:ntrain]] ** 2", "res_S = np.square(function_logger.S[sort_idx[0:ntrain]])"), "np.square")
T("c15-twin-lcb-order", "C15", (ACQ, "z = f_mu - sqrt_beta * f_s", "z = -f_s * sqrt_beta + f_mu"), "operand order")

# =========================================================================== C16
M("c16-s2-unfiltered", "C16", (GP, "                if s2 is not None and not np.isscalar(s2):\n                    s2 = s2[~idx_drop_out]\n", ""), "s2 not filtered in the retry (original defect)", "R2")
M("c16-handler-narrowed", "C16", (GP, "        except np.linalg.LinAlgError:\n            # handle", "        except FloatingPointError:\n            # handle"), "refit handler no longer catches LinAlgError", "R1")
M("c16-init-handler-reraises", "C16", (GP, "            training_failures += 1\n            logger.warning(", "            training_failures += 1\n            if training_failures > 1:\n                raise\n            logger.warning("), "initial training gives up on the second failure", "R1")
M("c16-few-attempts", "C16", (GP, "    n_try = 10\n", "    n_try = 3\n"), "only three attempts", "R1")
M("c16-update-unprotected", "C16", (GP, "    try:\n        gp.update(hyp=hyp_gp)\n    except np.linalg.LinAlgError:\n        # Posterior GP update failed (due to Cholesky decomposition)\n        logging.debug(\n            \"bads:local_gp_fitting: posterior GP update failed. Singular matrix for L Cholesky decomposition\"\n        )\n        gp.set_priors(old_priors)\n        gp.set_hyperparameters(old_hyp_gp)\n        # gp.set_hyperparameters(iteration_history.get('gp_hyp_full')[-1])\n        exit_flag = -2\n", "    gp.update(hyp=hyp_gp)\n"), "posterior update unprotected", "R3")
M("c16-handler-returns", "C16", (GP, "            success_flag[i_try] = False\n", "            success_flag[i_try] = False\n            if i_try > 0:\n                return gp, new_hyp, None, -1\n"), "refit gives up after the second failure", "R1")
T("c16-twin-broader-handler", "C16", (GP, "        except np.linalg.LinAlgError:\n            # handle", "        except (np.linalg.LinAlgError, FloatingPointError):\n            # handle"), "additional exception type caught")

# =========================================================================== C19
M("c19-best-u-typo", "C19", (BA, "                    self.u_best = self.u.copy()\n                    self.best_gp_hyp = self.iteration_history.get(\n                        \"gp_hyp_full\"\n                    )[idx_impr]", "                    self.best_u = self.u.copy()\n                    self.best_gp_hyp = self.iteration_history.get(\n                        \"gp_hyp_full\"\n                    )[idx_impr]"), "u_best not moved on the swap (original defect)", "R1")
M("c19-swap-other-index", "C19", (BA, "self.u = self.iteration_history.get(\"u\")[idx_impr]", "self.u = self.iteration_history.get(\"u\")[idx_impr - 1]"), "point taken from another iterate", "R1")
M("c19-record-x-of-best", "C19", (BA, "                    self.var_transf.inverse_transf(self.u.flatten()),\n                    poll_iteration,", "                    self.var_transf.inverse_transf(self.u_best.flatten()),\n                    poll_iteration,"), "recorded x is not the recorded u", "R2")
M("c19-record-fval-as-yval", "C19", (BA, "\"yval\", float(self.yval), poll_iteration", "\"yval\", float(self.fval), poll_iteration"), "observed value replaced by the estimate", "R2")
M("c19-history-no-deepcopy", "C19", (IH, "            self[key][iteration] = copy.deepcopy(value)", "            self[key][iteration] = value"), "history stores the caller's object", "R3")
M("c19-result-no-deepcopy", "C19", (OR_, "dict.__setitem__(self, key, copy.deepcopy(val))", "dict.__setitem__(self, key, val)"), "result stores references", "R3")
M("c19-result-accepts-unknown", "C19", (OR_, "        if key not in OptimizeResult._keys:\n            raise ValueError(\"\"\"The key is not part of OptimizeResult._keys\"\"\")\n        else:\n            dict.__setitem__(self, key, copy.deepcopy(val))", "        dict.__setitem__(self, key, copy.deepcopy(val))"), "unknown result keys accepted", "R3")
M("c19-result-fval-from-yval", "C19", (OR_, "self[\"fval\"] = bads.fval", "self[\"fval\"] = bads.yval"), "fval reports the last observation", "R4")
M("c19-result-count-from-state", "C19", (OR_, "self[\"func_count\"] = bads.function_logger.func_count", "self[\"func_count\"] = bads.optim_state[\"lastfitgp\"]"), "func_count read from elsewhere", "R4")
M("c19-final-swap-unguarded-u", "C19", (BA, "            self.u = self.iteration_history.get(\"u\")[min_q_beta_idx]\n", "            self.u = self.function_logger.X[min_q_beta_idx].copy()\n"), "returned point taken from the log, not from the recorded iterates", "R5")
M("c19-target-type", "C19", (OR_, "        if bads.optim_state[\"uncertainty_handling_level\"] > 0:\n            if bads.options[\"specify_target_noise\"]:", "        if bads.optim_state[\"uncertainty_handling_level\"] > 1:\n            if bads.options[\"specify_target_noise\"]:"), "auto-detected noise reported as deterministic", "R4")
T("c19-twin-copy-import", "C19", (IH, "            self[key][iteration] = copy.deepcopy(value)", "            self[key][iteration] = copy.deepcopy(value)  # independent copy"), "comment only")

# =========================================================================== C08
M("c08-half-bounds-any-any", "C08", (BA, "if np.any(np.isfinite(lower_bounds) != np.isfinite(upper_bounds)):", "if (np.any(np.isfinite(lower_bounds)) and np.any(np.invert(np.isfinite(upper_bounds)))) or (np.any(np.invert(np.isfinite(lower_bounds))) and np.any(np.isfinite(upper_bounds))):"), "cross-coordinate half-bounded test (original defect)", "R2")
M("c08-x0-on-bound-rejected", "C08", (BA, "if np.any(x0 < lower_bounds) or np.any(x0 > upper_bounds):", "if np.any(x0 <= lower_bounds) or np.any(x0 > upper_bounds):"), "x0 on the lower bound rejected", "R1")
M("c08-order-nonstrict", "C08", (BA, "            & (plausible_lower_bounds < plausible_upper_bounds)\n            & (plausible_upper_bounds <= upper_bounds)\n        )\n        if np.any(np.invert(ordidx)):\n            raise ValueError(\n                \"\"\"bads:StrictBounds: For each variable, hard and\n            plausible bounds should respect the ordering lower_bounds <= plausible", "            & (plausible_lower_bounds <= plausible_upper_bounds)\n            & (plausible_upper_bounds <= upper_bounds)\n        )\n        if np.any(np.invert(ordidx)):\n            raise ValueError(\n                \"\"\"bads:StrictBounds: For each variable, hard and\n            plausible bounds should respect the ordering lower_bounds <= plausible"), "final ordering check made non-strict", "R1")
M("c08-no-finite-check", "C08", (BA, "        if np.any(np.invert(np.isfinite(plausible_lower_bounds))) or np.any(\n            np.invert(np.isfinite(plausible_upper_bounds))\n        ):", "        if np.any(np.invert(np.isfinite(plausible_lower_bounds))):"), "upper plausible bound finiteness not checked", "R1")
M("c08-int-dtype", "C08", (VT, "        lb, ub, plb, pub = (b.astype(float) for b in (lb, ub, plb, pub))\n", ""), "float cast removed (original defect)", "R3")
M("c08-extra-rejection", "C08", (BA, "        # Test that plausible bounds are different\n", "        if np.any(plausible_upper_bounds - plausible_lower_bounds > 1e6):\n            raise ValueError(\"plausible box too wide\")\n        # Test that plausible bounds are different\n"), "undocumented rejection of wide boxes", "R1")
M("c08-ctor-evaluates", "C08", (BA, "        self.optim_state = self._init_optim_state_()\n\n        # create and init the function logger", "        self.optim_state = self._init_optim_state_()\n        self._f0 = fun(self.x0.flatten())\n\n        # create and init the function logger"), "constructor calls the target", "R5")
M("c08-half-check-dropped", "C08", (BA, "        if np.any(np.isfinite(lower_bounds) != np.isfinite(upper_bounds)):\n            raise ValueError(\n                \"\"\"bads:HalfBounds: Each variable needs to be unbounded or\n            bounded. Variables bounded only below/above are not supported.\"\"\"\n            )\n", ""), "half-bounded variables accepted", "R1")
M("c08-too-close-strict", "C08", (BA, "if np.any(LB_eff >= UB_eff):", "if np.any(LB_eff > UB_eff):"), "numerically identical bounds accepted", "R1")
M("c08-no-atleast2d", "C08", (BA, "        upper_bounds = np.atleast_2d(upper_bounds)\n        lower_bounds = np.atleast_2d(lower_bounds)\n        plausible_upper_bounds = np.atleast_2d(plausible_upper_bounds)\n        plausible_lower_bounds = np.atleast_2d(plausible_lower_bounds)\n        # check that all bounds are row vectors with D elements\n        upper_bounds = np.atleast_2d(upper_bounds)\n        lower_bounds = np.atleast_2d(lower_bounds)\n", "        plausible_upper_bounds = np.atleast_2d(plausible_upper_bounds)\n        plausible_lower_bounds = np.atleast_2d(plausible_lower_bounds)\n        # check that all bounds are row vectors with D elements\n"), "hard bounds not normalised to 2-D", "R4")
T("c08-twin-halfbounds-xor", "C08", (BA, "if np.any(np.isfinite(lower_bounds) != np.isfinite(upper_bounds)):", "if np.any(np.logical_and(np.isfinite(lower_bounds), ~np.isfinite(upper_bounds))) or np.any(np.logical_and(~np.isfinite(lower_bounds), np.isfinite(upper_bounds))):"), "two one-sided per-coordinate tests")
T("c08-twin-x0-flipped", "C08", (BA, "if np.any(x0 < lower_bounds) or np.any(x0 > upper_bounds):", "if np.any(upper_bounds < x0) or np.any(lower_bounds > x0):"), "operand order flipped")
T("c08-twin-not-all", "C08", (BA, "if np.any(plausible_lower_bounds == plausible_upper_bounds):", "if not np.all(plausible_lower_bounds != plausible_upper_bounds):"), "not-all spelling")

# =========================================================================== C10
M("c10-sd-no-isscalar", "C10", (FL, "not np.isscalar(fsd) or not np.isfinite(fsd) or not np.isreal(fsd) or fsd <= 0.0\n        ):\n            error_message = \"\"\"FunctionLogger:InvalidNoiseValue\n                The returned estimated SD (second function output)\n                must be a finite, positive real-valued scalar (returned SD:{}\"\"\"\n            raise ValueError(error_message.format(str(fsd)))\n\n        # record timer stats", "not np.isfinite(fsd) or not np.isreal(fsd) or fsd <= 0.0\n        ):\n            error_message = \"\"\"FunctionLogger:InvalidNoiseValue\n                The returned estimated SD (second function output)\n                must be a finite, positive real-valued scalar (returned SD:{}\"\"\"\n            raise ValueError(error_message.format(str(fsd)))\n\n        # record timer stats"), "SD scalar-ness not checked (original defect)", "R4")
M("c10-handler-swallows", "C10", (FL, "                    + str(x_orig),\n                )\n            raise\n", "                    + str(x_orig),\n                )\n            if isinstance(err, ArithmeticError):\n                return np.inf, None, None\n            raise\n"), "arithmetic errors of the target swallowed", "R1")
M("c10-handler-new-exception", "C10", (FL, "                    + str(x_orig),\n                )\n            raise\n", "                    + str(x_orig),\n                )\n            raise RuntimeError(\"target failed\") from err\n"), "exception type replaced", "R1")
M("c10-count-before-validation", "C10", (FL, "        # if fval is an array with only one element, extract that element\n", "        self.func_count += 1\n        # if fval is an array with only one element, extract that element\n"), "func_count advanced before validation", "R2")
M("c10-sd-zero-accepted", "C10", (FL, "not np.isreal(fsd) or fsd <= 0.0\n        ):\n            error_message = \"\"\"FunctionLogger:InvalidNoiseValue\n                The returned estimated SD (second function output)\n                must be a finite, positive real-valued scalar (returned SD:{}\"\"\"\n            raise ValueError(error_message.format(str(fsd)))\n\n        # record timer stats", "not np.isreal(fsd) or fsd < 0.0\n        ):\n            error_message = \"\"\"FunctionLogger:InvalidNoiseValue\n                The returned estimated SD (second function output)\n                must be a finite, positive real-valued scalar (returned SD:{}\"\"\"\n            raise ValueError(error_message.format(str(fsd)))\n\n        # record timer stats"), "zero SD accepted", "R4")
M("c10-poll-try", "C10", (BA, "            y_poll, y_sd_poll, f_idx_new = self.function_logger(u_new)\n", "            try:\n                y_poll, y_sd_poll, f_idx_new = self.function_logger(u_new)\n            except ArithmeticError:\n                y_poll, y_sd_poll, f_idx_new = np.inf, None, None\n"), "poll step swallows target failures", "R3")
M("c10-nan-masked", "C10", (FL, "        # if fval is an array with only one element, extract that element\n", "        fval_orig = np.nan_to_num(fval_orig, nan=1e300)\n        # if fval is an array with only one element, extract that element\n"), "NaN replaced before validation", "R5")
M("c10-value-isfinite-dropped", "C10", (FL, "            not np.isscalar(fval_orig)\n            or not np.isfinite(fval_orig)\n            or not np.isreal(fval_orig)\n        ):\n            error_message = \"\"\"FunctionLogger:InvalidFuncValue:\n            The returned function value must be a finite real-valued scalar\n            (returned value {})\"\"\"\n            raise ValueError(error_message.format(str(fval_orig)))\n\n        # Check returned function SD\n        if self.he_noise_flag", "            not np.isscalar(fval_orig)\n            or not np.isreal(fval_orig)\n        ):\n            error_message = \"\"\"FunctionLogger:InvalidFuncValue:\n            The returned function value must be a finite real-valued scalar\n            (returned value {})\"\"\"\n            raise ValueError(error_message.format(str(fval_orig)))\n\n        # Check returned function SD\n        if self.he_noise_flag"), "non-finite values accepted", "R4")
T("c10-twin-message", "C10", (FL, "\"\\n FunctionLogger:FuncError \"", "\"\\n FunctionLogger:TargetError \""), "message reworded")

# =========================================================================== C09
M("c09-merge-rank1", "C09", (FL, "f_val = self.Y[idx].item()", "f_val = self.Y[idx]"), "merge path returns rank-1 (original defect)", "R3")
M("c09-yvalvec-guard", "C09", (OR_, "            and bads.optim_state.get(\"yval_vec\") is not None\n", ""), "yval_vec read under weaker guard (original defect)", "R2")
M("c09-search-guard-dropped", "C09", (BA, "        if u_search_set.size > 0:\n            # Batch evaluation", "        if True:\n            # Batch evaluation"), "empty search set no longer handled", "R1")
M("c09-poll-empty-break-dropped", "C09", (BA, "            if u_poll is None or u_poll.size == 0:\n                break\n", ""), "empty poll set reaches argmin", "R1")
M("c09-result-bad-key", "C09", (OR_, "self[\"algorithm\"] = \"Bayesian adaptive direct search\"", "self[\"method\"] = \"Bayesian adaptive direct search\""), "result key not allowed", "R4")
M("c09-no-fallback", "C09", (BA, "            if (\n                ~np.isfinite(f_target_mu)\n                | ~np.isreal(f_target_s)\n                | ~np.isfinite(f_target_s)\n            ):\n                f_target_mu = self.optim_state[\"fval\"]\n                f_target_s = self.optim_state[\"fsd\"]\n", ""), "non-finite GP prediction fallback removed", "R5")
M("c09-key-read-before-write", "C09", (BA, "        self.optim_state[\"fsd\"] = self.fsd\n        self.u_best = self.u.copy()", "        self.optim_state[\"fsd\"] = self.fsd + 0 * self.optim_state[\"f_target_s\"]\n        self.u_best = self.u.copy()"), "state key read before the search step writes it", "R2")
T("c09-twin-len-guard", "C09", (BA, "        if u_search_set.size > 0:\n            # Batch evaluation", "        if len(u_search_set) > 0:\n            # Batch evaluation"), "len() spelling of the emptiness guard")

# =========================================================================== C17
M("c17-no-dedupe", "C17", (CC, "    _, idx_sort = np.unique(U_new, axis=0, return_index=True)\n    U_new = U_new[np.sort(idx_sort), :]\n", ""), "de-duplication removed", "R1")
M("c17-one-sided-clamp", ["C17", "C01"], (CC, "U_new = np.maximum(np.minimum(U, ub), lb)", "U_new = np.minimum(U, ub)"), "projection onto the upper bound only")
M("c17-drop-mask-not-negated", ["C17", "C01"], (CC, "U_new = U[~idx].copy()", "U_new = U[idx].copy()"), "out-of-box rows kept")
M("c17-constraint-flipped", ["C17", "C02"], (CC, "idx = C <= 0", "idx = C >= 0"), "violating rows kept")
M("c17-extra-norecord", "C17", (BA, "        self.optim_state[\"fsd\"] = self.fsd\n        self.u_best = self.u.copy()", "        self.optim_state[\"fsd\"] = self.fsd\n        self.function_logger(self.u, record_duplicate_data=False)\n        self.u_best = self.u.copy()"), "an extra silent repeat at the incumbent in every mode", "R3")
M("c17-unfiltered-poll", ["C17", "C01", "C02"], (BA, "                u_poll_new = contraints_check(\n                    u_poll_new,\n                    self.lower_bounds,\n                    self.upper_bounds,\n                    self.optim_state[\"tol_mesh\"],\n                    self.function_logger,\n                    False,\n                    self.non_box_cons,\n                )\n", ""), "poll candidates bypass the filter")
T("c17-twin-clip", ["C17", "C01"], (CC, "U_new = np.maximum(np.minimum(U, ub), lb)", "U_new = np.clip(U, lb, ub)"), "np.clip for nested min/max")
T("c17-twin-clamp-order", ["C17", "C01"], (CC, "U_new = np.maximum(np.minimum(U, ub), lb)", "U_new = np.minimum(np.maximum(lb, U), ub)"), "max first, operands swapped")

# =========================================================================== C01
M("c01-inverse-no-upper-clamp", ["C01"], (VT, "        x = np.minimum(\n            np.maximum(x, self.orig_lb), self.orig_ub\n        )  # Force to stay within bounds\n        x = x.reshape(input.shape)", "        x = np.maximum(x, self.orig_lb)\n        x = x.reshape(input.shape)"), "inverse transform clamps below only", "R1")
M("c01-inverse-clamp-internal", ["C01"], (VT, "            np.maximum(x, self.orig_lb), self.orig_ub\n        )  # Force to stay within bounds\n        x = x.reshape(input.shape)", "            np.maximum(x, self.lb), self.ub\n        )  # Force to stay within bounds\n        x = x.reshape(input.shape)"), "inverse transform clamps to the internal box", "R1")
M("c01-orig-bounds-alias", ["C01"], (VT, "        self.orig_lb = lb.copy()", "        self.orig_lb = plb.copy()"), "clamp bound is the plausible bound", "R1")
M("c01-search-ub-outward", ["C01"], (BA, "        ub_search[ub_search > ub] = (\n            ub_search[ub_search > ub] - self.optim_state[\"search_mesh_size\"]\n        )", "        ub_search[ub_search > ub] = (\n            ub_search[ub_search > ub] + self.optim_state[\"search_mesh_size\"]\n        )"), "upper search bound rounded outward in the per-iteration update", "R5")
M("c01-search-lb-no-nudge", ["C01"], (BA, "        lb_search[lb_search < self.lower_bounds] = (\n            lb_search[lb_search < self.lower_bounds]\n            + optim_state[\"search_mesh_size\"]\n        )\n", ""), "initial lower search bound not moved inside", "R5")
M("c01-poll-hard-bounds-swapped", ["C01"], (BA, "                    u_poll_new,\n                    self.lower_bounds,\n                    self.upper_bounds,\n                    self.optim_state[\"tol_mesh\"],", "                    u_poll_new,\n                    self.plausible_lower_bounds - 1,\n                    self.plausible_upper_bounds + 1,\n                    self.optim_state[\"tol_mesh\"],"), "poll candidates filtered against a wider box", "R4")
M("c01-incumbent-unfiltered", ["C01", "C02"], (BA, "            self.u = self.u_best\n", "            self.u = self.u_best + 0.5 * self.mesh_size\n"), "incumbent moved arithmetically without filtering", "R3")
M("c01-x-from-raw", ["C01", "C02"], (BA, "        self.x = self.var_transf.inverse_transf(self.u)", "        self.x = self.var_transf.ginv(np.atleast_2d(self.u))"), "result not clamped", "R2")
M("c01-logger-no-transformer", ["C01"], (BA, "            variable_transformer=self.var_transf,\n        )", "            variable_transformer=None,\n        )"), "logger evaluates internal coordinates directly", "R2")
T("c01-twin-clip-inverse", ["C01", "C11"], (VT, "        x = np.minimum(\n            np.maximum(x, self.orig_lb), self.orig_ub\n        )  # Force to stay within bounds\n        x = x.reshape(input.shape)", "        x = np.clip(x, self.orig_lb, self.orig_ub)\n        x = x.reshape(input.shape)"), "np.clip in the inverse transform")

# =========================================================================== C02
M("c02-search-no-cons", ["C02"], (BA, "            self.optim_state[\"tol_mesh\"],\n            self.function_logger,\n            True,\n            self.non_box_cons,\n        )\n\n        # The Acquisition Hedge", "            self.optim_state[\"tol_mesh\"],\n            self.function_logger,\n            True,\n            None,\n        )\n\n        # The Acquisition Hedge"), "search candidates not checked against the constraint", "R1")
M("c02-init-design-no-cons", ["C02"], (BA, "                    self.function_logger,\n                    True,\n                    self.non_box_cons,\n                )\n\n                for u_idx in range(len(u1)):", "                    self.function_logger,\n                    True,\n                )\n\n                for u_idx in range(len(u1)):"), "initial design not checked against the constraint", "R1")
M("c02-x0-check-before-draw", ["C02"], [(BA, "        # evaluate  starting point non-bound constraint\n        if non_box_cons is not None:\n            if non_box_cons(self.x0) > 0:\n                self.logger.error(\n                    \"Initial starting point X0 does not satisfy non-bound constraints (non_box_cons).\"\n                )\n                raise ValueError(\n                    \"Initial starting point X0 does not satisfy non-bound constraints (non_box_cons).\"\n                )\n", ""), (BA, "        # starting point\n        if not np.all(np.isfinite(self.x0)):", "        if non_box_cons is not None:\n            if non_box_cons(self.x0) > 0:\n                raise ValueError(\"Initial starting point X0 does not satisfy non-bound constraints (non_box_cons).\")\n        # starting point\n        if not np.all(np.isfinite(self.x0)):")], "feasibility of x0 checked before the random draw", "R2")
M("c02-snapped-check-dropped", ["C02"], (BA, "        if self.non_box_cons is not None and \\\n            np.any(self.non_box_cons(self.var_transf.inverse_transf(u0)) > 0):", "        if False and self.non_box_cons is not None and \\\n            np.any(self.non_box_cons(self.var_transf.inverse_transf(u0)) > 0):"), "snapped start point no longer checked", "R2")
M("c02-constraint-on-other-rows", ["C02"], (CC, "        X = function_logger.variable_transformer.inverse_transf(U_new)", "        X = function_logger.variable_transformer.inverse_transf(U)"), "constraint evaluated on the unfiltered rows", "R1")
T("c02-twin-strict", ["C02"], (CC, "idx = C <= 0", "idx = ~(C > 0)"), "negated violation mask")
