"""Self-validation of the checker (DESIGN.md section 8); filled in later."""


def run_for(prop, seed):
    return {"status": "corpus not built yet"}
