"""Self-validation of the checker (DESIGN.md section 8).

Applies each corpus edit to a scratch copy of the *current* /repo package
(mkdtemp outside /repo and /verif, removed immediately), runs the property's
quick rules on it in a subprocess and compares with the expectation:

  mutant -> exit 1 (and, when given, the report mentions ``expect_text``)
  twin   -> exit 0

A missed mutant or a noisy twin is a *checker* defect: it is recorded in the
evidence (``self_validation``) and never turned into a VIOLATION against /repo.
Edits whose anchor text is absent on the current tree are skipped and counted.
"""
from __future__ import annotations

import concurrent.futures as cf
import os
import shutil
import subprocess
import sys
import tempfile
from typing import Dict, List, Optional

from ..model import repo_root
from . import edits

VERIF = os.path.dirname(os.path.dirname(os.path.dirname(os.path.abspath(__file__))))


def _apply(root: str, edit) -> Optional[str]:
    """apply edit to scratch ``root``; returns None on success or a reason."""
    if edit.get("patch"):
        r = subprocess.run(["patch", "-s", "-p1", "-i", edit["patch"]], cwd=root, capture_output=True, text=True)
        return None if r.returncode == 0 else "patch does not apply: " + (r.stdout + r.stderr)[-200:]
    for step in edit["steps"]:
        path = os.path.join(root, step["file"])
        if not os.path.exists(path):
            return f"file {step['file']} absent"
        with open(path, encoding="utf-8") as fh:
            src = fh.read()
        old, new = step["old"], step["new"]
        n = src.count(old)
        want = step.get("count", 1)
        if n < 1 or (want != "all" and n != want and step.get("nth") is None):
            return f"anchor occurs {n}x (expected {want}) in {step['file']}"
        if step.get("nth") is not None:
            idx = -1
            for _ in range(step["nth"] + 1):
                idx = src.find(old, idx + 1)
                if idx < 0:
                    return "nth occurrence absent"
            src = src[:idx] + new + src[idx + len(old):]
        else:
            src = src.replace(old, new)
        with open(path, "w", encoding="utf-8") as fh:
            fh.write(src)
    return None


def run_one(edit, prop: str) -> Dict:
    src_root = repo_root()
    tmp = tempfile.mkdtemp(prefix="pbstatic-scratch-")
    try:
        shutil.copytree(os.path.join(src_root, "pybads"), os.path.join(tmp, "pybads"), ignore=shutil.ignore_patterns("__pycache__", "testing"))
        why = _apply(tmp, edit)
        if why:
            return {"id": edit["id"], "prop": prop, "status": "skipped", "why": why}
        # the edit must still compile
        for step in edit.get("steps", []):
            try:
                compile(open(os.path.join(tmp, step["file"]), encoding="utf-8").read(), step["file"], "exec")
            except SyntaxError as e:
                return {"id": edit["id"], "prop": prop, "status": "skipped", "why": f"edit does not compile: {e}"}
        env = dict(os.environ, PBSTATIC_REPO=tmp, PBSTATIC_SCRATCH="1")
        r = subprocess.run([sys.executable, "-m", "pbstatic.run", prop, "--tier", "quick"], cwd=VERIF, env=env, capture_output=True, text=True, timeout=300)
        out = r.stdout
        kind = edit["kind"]
        if kind == "mutant":
            ok = r.returncode == 1 and (edit.get("expect_text") is None or edit["expect_text"] in out)
        else:
            ok = r.returncode == 0
        res = {"id": edit["id"], "prop": prop, "kind": kind, "status": "ok" if ok else "MISMATCH", "rc": r.returncode}
        if not ok:
            res["output_tail"] = out[-1500:]
        else:
            res["reported"] = [l for l in out.splitlines() if l.startswith("[" + prop + "-")][:2]
        return res
    finally:
        shutil.rmtree(tmp, ignore_errors=True)


def harmless_patches() -> List[Dict]:
    """independently written single edits that are harmless on their own (halves of
    'two cooperating edits' seeded changes): every check must stay silent on each."""
    d = os.path.join(VERIF, "seeded", "_harmless")
    out = []
    if os.path.isdir(d):
        for f in sorted(os.listdir(d)):
            if f.endswith(".patch"):
                out.append({"kind": "twin", "id": "harmless-" + f[:-6], "props": list(ALL_PROPS), "patch": os.path.join(d, f), "steps": [], "desc": "harmless half of a seeded two-edit change"})
    # behaviour-preserving refactorings written by sub-agents (each verified bit-for-bit by its author's equivalence
    # battery, seeded/_refactor/notes): extract / inline helper, renamed locals, guard clauses, idiom changes ...
    d = os.path.join(VERIF, "seeded", "_refactor")
    if os.path.isdir(d):
        for f in sorted(os.listdir(d)):
            if f.endswith(".patch"):
                out.append({"kind": "twin", "id": "refactor-" + f[:-6], "props": list(ALL_PROPS), "patch": os.path.join(d, f), "steps": [], "desc": "behaviour-preserving refactoring (sub-agent, equivalence-checked)"})
    return out


def seeded_mutants() -> List[Dict]:
    """the independently written breaking changes kept under /verif/seeded/<id>/ are
    replayed as mutants: each must be reported by every check that reported it when it
    was filed (meta.json: checks_reporting)."""
    import json

    d = os.path.join(VERIF, "seeded")
    out = []
    if os.path.isdir(d):
        for sid in sorted(os.listdir(d)):
            mp = os.path.join(d, sid, "meta.json")
            pp = os.path.join(d, sid, "patch.diff")
            if not (os.path.exists(mp) and os.path.exists(pp)):
                continue
            try:
                meta = json.load(open(mp))
            except Exception:
                continue
            props = [p for p, v in meta.get("checks_reporting", {}).items() if v.get("rc") == 1]
            if props:
                out.append({"kind": "mutant", "id": "seeded-" + sid, "props": props, "patch": pp, "steps": [], "desc": "independently written breaking change", "expect_text": None})
    return out


ALL_PROPS = ["C01", "C02", "C03", "C04", "C05", "C07", "C08", "C09", "C10", "C11", "C12", "C13", "C14", "C15", "C16", "C17", "C18", "C19", "C20"]


def run_many(pairs: List, jobs: int = 16) -> List[Dict]:
    with cf.ThreadPoolExecutor(max_workers=jobs) as ex:
        futs = [ex.submit(run_one, e, p) for e, p in pairs]
        return [f.result() for f in futs]


def summarise(results: List[Dict]) -> Dict:
    mut = [r for r in results if r.get("kind") == "mutant"]
    tw = [r for r in results if r.get("kind") == "twin"]
    return {
        "corpus_mutants_total": len(mut),
        "corpus_mutants_detected": sum(r["status"] == "ok" for r in mut),
        "twins_total": len(tw),
        "twins_silent": sum(r["status"] == "ok" for r in tw),
        "skipped": [f"{r['id']}: {r['why']}" for r in results if r["status"] == "skipped"],
        "missed_mutants": [r["id"] for r in mut if r["status"] != "ok"],
        "noisy_twins": [r["id"] for r in tw if r["status"] != "ok"],
        "sample_detections": [f"{r['id']}: {r['reported'][0][:160]}" for r in mut if r["status"] == "ok" and r.get("reported")][:5],
    }


def run_for(prop: str, seed: int = 0) -> Dict:
    pairs = [(e, prop) for e in edits.ALL + harmless_patches() + seeded_mutants() if prop in e["props"]]
    if seed:
        import random

        random.Random(seed).shuffle(pairs)
    res = run_many(pairs)
    return summarise(res)


def main(argv=None):
    import argparse
    import json

    ap = argparse.ArgumentParser()
    ap.add_argument("props", nargs="*")
    ap.add_argument("--id")
    ap.add_argument("-v", action="store_true")
    a = ap.parse_args(argv)
    pairs = []
    for e in edits.ALL + harmless_patches() + seeded_mutants():
        if a.id and a.id not in e["id"]:
            continue
        for p in e["props"]:
            if a.props and p not in a.props:
                continue
            pairs.append((e, p))
    res = run_many(pairs)
    bad = 0
    for r in sorted(res, key=lambda r: (r["prop"], r["id"])):
        flag = {"ok": "ok  ", "MISMATCH": "MISS", "skipped": "skip"}[r["status"]]
        line = f"{flag} {r['prop']} {r.get('kind','?'):6} {r['id']}"
        if r["status"] == "skipped":
            line += "  (" + r["why"] + ")"
        print(line)
        if r["status"] == "MISMATCH":
            bad += 1
            if a.v:
                print(r.get("output_tail", ""))
        elif a.v and r.get("reported"):
            print("     ", r["reported"][0][:200])
    print(json.dumps(summarise(res), indent=1)[:3000])
    return 1 if bad else 0


if __name__ == "__main__":
    sys.exit(main())
