"""Thorough-tier extras: generic lints run over *all* functions of the package
(diagnostics only -- they never decide a property), and bounded path
enumeration statistics for the control skeletons."""
from __future__ import annotations

import ast
import builtins
from typing import Dict, List

from .cfg import cfg_of
from .flow import EMPTY, BasePolicy, TagFlow


class _DefPolicy(BasePolicy):
    """$D = set of local names definitely assigned."""

    def __init__(self, fn):
        self.fn = fn

    def initial(self, flow):
        return {"$D": frozenset(p for p in self.fn.params)}

    def after_stmt(self, node, state, flow):
        gen = set()
        s = node.stmt
        targets = []
        if node.kind == "stmt":
            if isinstance(s, ast.Assign):
                targets = s.targets
            elif isinstance(s, (ast.AugAssign, ast.AnnAssign)):
                targets = [s.target]
            elif isinstance(s, (ast.Import, ast.ImportFrom)):
                for a in s.names:
                    gen.add((a.asname or a.name).split(".")[0])
            elif isinstance(s, (ast.FunctionDef, ast.ClassDef)):
                gen.add(s.name)
        elif node.kind == "for":
            targets = [s.target]
        elif node.kind == "with":
            targets = [it.optional_vars for it in s.items if it.optional_vars is not None]
        elif node.kind == "handler" and s.name:
            gen.add(s.name)
        stack = list(targets)
        while stack:
            t = stack.pop()
            if isinstance(t, (ast.Tuple, ast.List)):
                stack.extend(t.elts)
            elif isinstance(t, ast.Starred):
                stack.append(t.value)
            elif isinstance(t, ast.Name):
                gen.add(t.id)
        # walrus / comprehension targets are expression-local: ignored
        if gen:
            state = dict(state)
            state["$D"] = frozenset(state.get("$D", EMPTY) | gen)
        return state


def possibly_unbound(prog) -> List[str]:
    """locals that may be unbound at a use (flow-sensitive must-definition;
    no guard correlation -- diagnostics only)."""
    out = []
    bi = set(dir(builtins))
    for fn in prog.functions():
        assigned = set()
        for n in ast.walk(fn.node):
            if isinstance(n, ast.Name) and isinstance(n.ctx, ast.Store) and prog.function_of(n) is fn:
                assigned.add(n.id)
        if not assigned:
            continue
        comp_locals = set()
        for n in ast.walk(fn.node):
            if isinstance(n, ast.comprehension):
                for x in ast.walk(n.target):
                    if isinstance(x, ast.Name):
                        comp_locals.add(x.id)
            if isinstance(n, ast.Lambda):
                comp_locals |= {a.arg for a in n.args.args}
        fl = TagFlow(prog, fn, _DefPolicy(fn))
        seen = set()
        for n in ast.walk(fn.node):
            if isinstance(n, ast.Name) and isinstance(n.ctx, ast.Load) and n.id in assigned and n.id not in fn.params and n.id not in bi and n.id not in comp_locals:
                if prog.function_of(n) is not fn:
                    continue
                if any(isinstance(p, (ast.Lambda, ast.FunctionDef)) and p is not fn.node for p in prog.ancestors(n)):
                    continue
                st = fl.state_before(n)
                if st is None:
                    continue
                if n.id not in st.get("$D", EMPTY) and (fn.qualname, n.id) not in seen:
                    seen.add((fn.qualname, n.id))
                    out.append(f"{fn.module.relpath}:{n.lineno} {fn.short}: '{n.id}' may be unbound here")
    return out


def loop_path_stats(prog, fn, cap: int = 10000) -> Dict:
    """number of acyclic paths through each loop body (header -> header)."""
    cfg = cfg_of(fn)
    stats = {}
    import networkx as nx

    for hdr, body in cfg.loops.items():
        sub = cfg.g.subgraph(body | {hdr}).copy()
        n = 0
        # split the header: paths from its body successors back to it
        for s in cfg.succ(hdr, "T"):
            if s not in sub:
                continue
            if s == hdr:
                n += 1
                continue
            try:
                for _p in nx.all_simple_paths(sub, s, hdr):
                    n += 1
                    if n >= cap:
                        break
            except nx.NetworkXError:
                pass
            if n >= cap:
                break
        stats[f"loop@{cfg.nodes[hdr].lineno}"] = n
    return stats
