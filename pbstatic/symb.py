"""Optional sympy bridge for straight-line arithmetic (A5).

Used only for *equivalence up to algebra* of formulas (never to explore
paths).  Anything the translator does not know raises ``Untranslatable``; the
calling clause then reports UNDECIDED instead of raising an alarm.
"""
from __future__ import annotations

import ast
from typing import Callable, Dict, Iterable, Optional

import sympy as sp

from .terms import call_name, canon, const_num, dotted, state_key


class Untranslatable(Exception):
    pass


TRANSPARENT_METHODS = {"copy", "flatten", "item", "squeeze", "ravel"}
TRANSPARENT_CALLS = {"np.atleast_1d", "np.atleast_2d", "np.copy", "float", "np.asarray", "np.array", "np.abs_"}

_FUN = {
    "np.sqrt": sp.sqrt,
    "math.sqrt": sp.sqrt,
    "np.exp": sp.exp,
    "np.log": sp.log,
    "math.log": sp.log,
    "np.abs": sp.Abs,
    "abs": sp.Abs,
    "np.square": lambda x: x**2,
    "np.ceil": sp.ceiling,
    "math.ceil": sp.ceiling,
    "np.floor": sp.floor,
    "math.floor": sp.floor,
}
_FUN2 = {
    "np.minimum": sp.Min,
    "np.maximum": sp.Max,
    "min": sp.Min,
    "max": sp.Max,
    "np.power": lambda a, b: a**b,
}
_OPAQUE = {"np.mean", "np.std", "np.sum", "np.size", "np.median", "np.max", "np.min", "np.cumsum", "len", "np.prod"}


class Translator:
    def __init__(self, env: Optional[Dict[str, sp.Expr]] = None, strip_index: Optional[Callable[[ast.AST], bool]] = None,
                 positive: Iterable[str] = (), real: bool = True):
        self.env = dict(env or {})
        self.strip_index = strip_index or (lambda idx: False)
        self.positive = set(positive)
        self.symbols: Dict[str, sp.Symbol] = {}

    def sym(self, name: str) -> sp.Symbol:
        if name not in self.symbols:
            self.symbols[name] = sp.Symbol(name, positive=True) if name in self.positive else sp.Symbol(name, real=True)
        return self.symbols[name]

    def tr(self, e: ast.AST) -> sp.Expr:
        v = const_num(e)
        if v is not None and not isinstance(e, ast.BinOp):
            if v == float("inf"):
                return sp.oo
            if v == float("-inf"):
                return -sp.oo
            return sp.nsimplify(v, rational=True) if isinstance(v, float) else sp.Integer(v)
        if isinstance(e, ast.Constant):
            if isinstance(e.value, bool):
                return sp.Integer(int(e.value))
            raise Untranslatable(f"constant {e.value!r}")
        d = dotted(e)
        if d in ("np.pi", "math.pi", "numpy.pi"):
            return sp.pi
        sk = state_key(e)
        if sk or d is not None:
            key = canon(e)
            if key in self.env:
                return self.env[key]
            return self.sym(key)
        if isinstance(e, ast.UnaryOp):
            if isinstance(e.op, ast.USub):
                return -self.tr(e.operand)
            if isinstance(e.op, ast.UAdd):
                return self.tr(e.operand)
            raise Untranslatable("unary " + e.op.__class__.__name__)
        if isinstance(e, ast.BinOp):
            l, r = self.tr(e.left), self.tr(e.right)
            if isinstance(e.op, ast.Add):
                return l + r
            if isinstance(e.op, ast.Sub):
                return l - r
            if isinstance(e.op, ast.Mult):
                return l * r
            if isinstance(e.op, ast.Div):
                return l / r
            if isinstance(e.op, ast.Pow):
                return l**r
            raise Untranslatable("binop " + e.op.__class__.__name__)
        if isinstance(e, ast.Subscript):
            if self.strip_index(e.slice):
                return self.tr(e.value)
            key = canon(e)
            if key in self.env:
                return self.env[key]
            return self.sym(key)
        if isinstance(e, ast.Call):
            n = call_name(e)
            if isinstance(e.func, ast.Attribute) and e.func.attr in TRANSPARENT_METHODS and not e.args:
                return self.tr(e.func.value)
            if n in TRANSPARENT_CALLS and e.args:
                return self.tr(e.args[0])
            if n == "int" and len(e.args) == 1 and isinstance(e.args[0], ast.Call) and call_name(e.args[0]) in ("np.ceil", "np.floor", "math.ceil", "math.floor", "round", "np.round"):
                return self.tr(e.args[0])  # int() of an integral float is the identity
            if n in _FUN and len(e.args) == 1:
                return _FUN[n](self.tr(e.args[0]))
            if n in _FUN2 and len(e.args) == 2:
                return _FUN2[n](self.tr(e.args[0]), self.tr(e.args[1]))
            if n in _OPAQUE and e.args:
                f = sp.Function(n.replace("np.", ""))
                return f(*[self.tr(a) for a in e.args[:1]])
            key = canon(e)
            if key in self.env:
                return self.env[key]
            raise Untranslatable(f"call {n or canon(e.func)}")
        if isinstance(e, ast.Attribute) and canon(e).startswith("np.finfo(") and e.attr in ("max", "eps", "tiny"):
            return self.sym("FINFO_" + e.attr.upper())
        if isinstance(e, ast.IfExp):
            raise Untranslatable("conditional expression")
        raise Untranslatable(e.__class__.__name__)

    def key(self, target: ast.AST) -> str:
        if isinstance(target, ast.Subscript) and self.strip_index(target.slice):
            return self.key(target.value)
        return canon(target)

    def assign(self, target: ast.AST, value: ast.AST):
        self.env[self.key(target)] = self.tr(value)

    def run(self, stmts):
        """Symbolically execute straight-line assignments."""
        for s in stmts:
            if isinstance(s, ast.Assign) and len(s.targets) == 1:
                t = s.targets[0]
                if isinstance(t, (ast.Tuple, ast.List)) and isinstance(s.value, (ast.Tuple, ast.List)) and len(t.elts) == len(s.value.elts):
                    vals = [self.tr(v) for v in s.value.elts]
                    for tt, v in zip(t.elts, vals):
                        self.env[self.key(tt)] = v
                else:
                    self.assign(t, s.value)
            elif isinstance(s, ast.AugAssign):
                fake = ast.BinOp(left=s.target, op=s.op, right=s.value)
                self.env[self.key(s.target)] = self.tr(fake)
            elif isinstance(s, (ast.Expr, ast.Pass)):
                continue
            else:
                raise Untranslatable(s.__class__.__name__)


def is_zero(expr: sp.Expr) -> bool:
    try:
        e = sp.simplify(expr)
        if e == 0:
            return True
        e = sp.simplify(sp.expand(sp.together(expr)))
        return e == 0
    except Exception:
        return False
