"""A5/A3 -- term normalisation and guards.

``canon(expr)`` maps an expression to a canonical string so that rules compare
*meaning up to trivial algebra*, never source text: numpy alias stripped,
operands of commutative operators sorted, comparisons oriented (``a >= b`` is
``b <= a``), negation pushed through comparisons, the three spellings of a
state read (``self.optim_state["k"]``, ``optim_state.get("k")``,
``bads.optim_state["k"]``) unified, clamp / square / sqrt idioms recognised.

``linear(expr)`` gives an exact linear form over opaque atoms with Fraction
coefficients; ``cmp_normal`` turns a comparison into ``form REL 0``.
"""
from __future__ import annotations

import ast
from fractions import Fraction
from typing import Dict, List, Optional, Tuple

NP_ALIASES = {"np", "numpy"}

# receivers that name the same state object across modules
STATE_ALIASES = {
    "self.optim_state": "OS",
    "optim_state": "OS",
    "bads.optim_state": "OS",
    "self.options": "OPT",
    "options": "OPT",
    "bads.options": "OPT",
    "options_dict": "OPT",
    "self.options_dict": "OPT",
    "self.function_logger": "LOG",
    "function_logger": "LOG",
    "func_logger": "LOG",
    "bads.function_logger": "LOG",
    "self.iteration_history": "HIST",
    "iteration_history": "HIST",
    "bads.iteration_history": "HIST",
    "self.var_transf": "VT",
    "bads.var_transf": "VT",
    "function_logger.variable_transformer": "VT",
    "self.function_logger.variable_transformer": "VT",
    "self.variable_transformer": "VT",
}


def dotted(expr: ast.AST) -> Optional[str]:
    if isinstance(expr, ast.Name):
        return expr.id
    if isinstance(expr, ast.Attribute):
        b = dotted(expr.value)
        return None if b is None else f"{b}.{expr.attr}"
    return None


def const_str(expr) -> Optional[str]:
    if isinstance(expr, ast.Constant) and isinstance(expr.value, str):
        return expr.value
    return None


def const_num(expr):
    """Numeric literal value (handles unary minus, np.inf, float('inf'))."""
    if isinstance(expr, ast.Constant) and isinstance(expr.value, (int, float)) and not isinstance(expr.value, bool):
        return expr.value
    if isinstance(expr, ast.UnaryOp) and isinstance(expr.op, ast.USub):
        v = const_num(expr.operand)
        return None if v is None else -v
    if isinstance(expr, ast.UnaryOp) and isinstance(expr.op, ast.UAdd):
        return const_num(expr.operand)
    d = dotted(expr)
    if d in ("np.inf", "numpy.inf", "np.Inf", "math.inf"):
        return float("inf")
    if isinstance(expr, ast.BinOp):
        l, r = const_num(expr.left), const_num(expr.right)
        if l is not None and r is not None:
            try:
                if isinstance(expr.op, ast.Add):
                    return l + r
                if isinstance(expr.op, ast.Sub):
                    return l - r
                if isinstance(expr.op, ast.Mult):
                    return l * r
                if isinstance(expr.op, ast.Div):
                    return l / r
                if isinstance(expr.op, ast.Pow):
                    return l ** r
            except (ZeroDivisionError, OverflowError):
                return None
    return None


def state_key(expr: ast.AST) -> Optional[Tuple[str, str]]:
    """``self.optim_state["k"]`` / ``optim_state.get("k")`` -> ("OS", "k")."""
    if isinstance(expr, ast.Subscript):
        d = dotted(expr.value)
        k = const_str(expr.slice)
        if d in STATE_ALIASES and k is not None:
            return STATE_ALIASES[d], k
    if (
        isinstance(expr, ast.Call)
        and isinstance(expr.func, ast.Attribute)
        and expr.func.attr == "get"
        and expr.args
    ):
        d = dotted(expr.func.value)
        k = const_str(expr.args[0])
        if d in STATE_ALIASES and k is not None:
            return STATE_ALIASES[d], k
    return None


def call_name(expr: ast.AST) -> Optional[str]:
    """Dotted callee name with numpy alias normalised to ``np``."""
    if not isinstance(expr, ast.Call):
        return None
    d = dotted(expr.func)
    if d is None:
        return None
    parts = d.split(".")
    if parts[0] in NP_ALIASES:
        parts[0] = "np"
    return ".".join(parts)


def is_np_call(expr, *names) -> bool:
    n = call_name(expr)
    return n is not None and n in {f"np.{x}" for x in names}


def match_clamp(expr: ast.AST) -> Optional[Tuple[ast.AST, ast.AST, ast.AST]]:
    """-> (inner, lo, hi) for min(max(x, lo), hi) / max(min(x, hi), lo) /
    clip(x, lo, hi); operand order inside min/max is free."""
    n = call_name(expr)
    if n == "np.clip" and len(expr.args) >= 3:
        return expr.args[0], expr.args[1], expr.args[2]
    if n in ("np.minimum", "np.fmin") and len(expr.args) == 2:
        for i in (0, 1):
            inner, hi = expr.args[i], expr.args[1 - i]
            if call_name(inner) in ("np.maximum", "np.fmax") and len(inner.args) == 2:
                # which operand of the inner max is the value?  ambiguous:
                # return the first; callers compare bounds as a set when needed
                return inner.args[0], inner.args[1], hi
    if n in ("np.maximum", "np.fmax") and len(expr.args) == 2:
        for i in (0, 1):
            inner, lo = expr.args[i], expr.args[1 - i]
            if call_name(inner) in ("np.minimum", "np.fmin") and len(inner.args) == 2:
                return inner.args[0], lo, inner.args[1]
    return None


def match_clamp_all(expr: ast.AST) -> List[Tuple[ast.AST, ast.AST, ast.AST]]:
    """All (value, lo, hi) readings of a two-sided clamp (the value may be
    either operand of the inner call)."""
    out = []
    n = call_name(expr)
    if n == "np.clip" and len(expr.args) >= 3:
        return [(expr.args[0], expr.args[1], expr.args[2])]
    if n in ("np.minimum", "np.fmin") and len(expr.args) == 2:
        for i in (0, 1):
            inner, hi = expr.args[i], expr.args[1 - i]
            if call_name(inner) in ("np.maximum", "np.fmax") and len(inner.args) == 2:
                out.append((inner.args[0], inner.args[1], hi))
                out.append((inner.args[1], inner.args[0], hi))
    if n in ("np.maximum", "np.fmax") and len(expr.args) == 2:
        for i in (0, 1):
            inner, lo = expr.args[i], expr.args[1 - i]
            if call_name(inner) in ("np.minimum", "np.fmin") and len(inner.args) == 2:
                out.append((inner.args[0], lo, inner.args[1]))
                out.append((inner.args[1], lo, inner.args[0]))
    return out


def match_square(expr) -> Optional[ast.AST]:
    if isinstance(expr, ast.BinOp) and isinstance(expr.op, ast.Pow) and const_num(expr.right) == 2:
        return expr.left
    if isinstance(expr, ast.BinOp) and isinstance(expr.op, ast.Mult) and canon(expr.left) == canon(expr.right):
        return expr.left
    if is_np_call(expr, "square") and expr.args:
        return expr.args[0]
    if is_np_call(expr, "power") and len(expr.args) == 2 and const_num(expr.args[1]) == 2:
        return expr.args[0]
    return None


def match_sqrt(expr) -> Optional[ast.AST]:
    if is_np_call(expr, "sqrt") and expr.args:
        return expr.args[0]
    if call_name(expr) == "math.sqrt" and expr.args:
        return expr.args[0]
    if isinstance(expr, ast.BinOp) and isinstance(expr.op, ast.Pow) and const_num(expr.right) == 0.5:
        return expr.left
    return None


_FLIP = {ast.Gt: ast.Lt, ast.GtE: ast.LtE}
_NEG = {ast.Lt: ast.GtE, ast.LtE: ast.Gt, ast.Gt: ast.LtE, ast.GtE: ast.Lt, ast.Eq: ast.NotEq, ast.NotEq: ast.Eq,
        ast.Is: ast.IsNot, ast.IsNot: ast.Is, ast.In: ast.NotIn, ast.NotIn: ast.In}
_OPSYM = {ast.Lt: "<", ast.LtE: "<=", ast.Eq: "==", ast.NotEq: "!=", ast.Is: "is", ast.IsNot: "is not",
          ast.In: "in", ast.NotIn: "not in", ast.Gt: ">", ast.GtE: ">="}
_BINSYM = {ast.Add: "+", ast.Sub: "-", ast.Mult: "*", ast.Div: "/", ast.Pow: "**", ast.Mod: "%",
           ast.FloorDiv: "//", ast.MatMult: "@", ast.BitAnd: "&", ast.BitOr: "|", ast.BitXor: "^",
           ast.LShift: "<<", ast.RShift: ">>"}


def _flat(expr, optype):
    if isinstance(expr, ast.BinOp) and isinstance(expr.op, optype):
        return _flat(expr.left, optype) + _flat(expr.right, optype)
    return [expr]


def canon(expr: ast.AST, neg: bool = False) -> str:
    """Canonical string; ``neg`` asks for the logical negation."""
    if expr is None:
        return "None"
    if neg:
        if isinstance(expr, ast.UnaryOp) and isinstance(expr.op, ast.Not):
            return canon(expr.operand)
        if isinstance(expr, ast.Compare) and len(expr.ops) == 1 and type(expr.ops[0]) in _NEG:
            op = _NEG[type(expr.ops[0])]()
            return canon(ast.Compare(left=expr.left, ops=[op], comparators=expr.comparators))
        if isinstance(expr, ast.BoolOp):
            parts = sorted(canon(v, neg=True) for v in expr.values)
            j = " or " if isinstance(expr.op, ast.And) else " and "
            return "(" + j.join(parts) + ")"
        return f"not {canon(expr)}"
    sk = state_key(expr)
    if sk:
        return f"{sk[0]}[{sk[1]}]"
    if isinstance(expr, ast.Constant):
        v = expr.value
        if isinstance(v, bool) or v is None or isinstance(v, str):
            return repr(v)
        if isinstance(v, (int, float)):
            return repr(float(v)) if float(v) != int(v) or isinstance(v, float) and abs(v) > 1e15 else repr(int(v))
        return repr(v)
    if isinstance(expr, ast.Name):
        return expr.id
    if isinstance(expr, ast.Attribute):
        d = dotted(expr)
        if d is not None:
            if d in STATE_ALIASES:
                return STATE_ALIASES[d]
            parts = d.split(".")
            for i in range(len(parts), 0, -1):
                pre = ".".join(parts[:i])
                if pre in STATE_ALIASES:
                    return ".".join([STATE_ALIASES[pre]] + parts[i:])
            if parts[0] in NP_ALIASES:
                parts[0] = "np"
            return ".".join(parts)
        return f"{canon(expr.value)}.{expr.attr}"
    if isinstance(expr, ast.UnaryOp):
        if isinstance(expr.op, ast.Not):
            return canon(expr.operand, neg=True)
        if isinstance(expr.op, ast.Invert):
            return f"INV({canon(expr.operand)})"
        if isinstance(expr.op, ast.USub):
            v = const_num(expr)
            if v is not None:
                return canon(ast.Constant(value=v)) if v == v and abs(v) != float("inf") else "-inf"
            return f"(-{canon(expr.operand)})"
        return canon(expr.operand)
    if isinstance(expr, ast.Compare):
        if len(expr.ops) == 1:
            op, l, r = expr.ops[0], expr.left, expr.comparators[0]
            if type(op) in _FLIP:
                op, l, r = _FLIP[type(op)](), r, l
            ls, rs = canon(l), canon(r)
            if isinstance(op, (ast.Eq, ast.NotEq)) and rs < ls:
                ls, rs = rs, ls
            return f"({ls} {_OPSYM[type(op)]} {rs})"
        parts = [canon(expr.left)]
        for op, c in zip(expr.ops, expr.comparators):
            parts += [_OPSYM[type(op)], canon(c)]
        return "(" + " ".join(parts) + ")"
    if isinstance(expr, ast.BoolOp):
        vals = []
        for v in expr.values:
            if isinstance(v, ast.BoolOp) and type(v.op) is type(expr.op):
                vals.extend(v.values)
            else:
                vals.append(v)
        j = " and " if isinstance(expr.op, ast.And) else " or "
        return "(" + j.join(sorted(canon(v) for v in vals)) + ")"
    sq = match_square(expr) if isinstance(expr, (ast.BinOp, ast.Call)) else None
    if sq is not None:
        return f"SQ({canon(sq)})"
    rt = match_sqrt(expr) if isinstance(expr, (ast.BinOp, ast.Call)) else None
    if rt is not None:
        return f"SQRT({canon(rt)})"
    if isinstance(expr, ast.BinOp):
        if isinstance(expr.op, (ast.Add, ast.Mult, ast.BitAnd, ast.BitOr)):
            parts = sorted(canon(p) for p in _flat(expr, type(expr.op)))
            return "(" + f" {_BINSYM[type(expr.op)]} ".join(parts) + ")"
        return f"({canon(expr.left)} {_BINSYM.get(type(expr.op), '?')} {canon(expr.right)})"
    if isinstance(expr, ast.Call):
        cl = match_clamp(expr)
        if cl is not None:
            return f"CLAMP({canon(cl[0])}, {canon(cl[1])}, {canon(cl[2])})"
        n = call_name(expr)
        if n in ("np.invert", "np.logical_not") and expr.args:
            return f"INV({canon(expr.args[0])})"
        if n in ("np.logical_and",) and len(expr.args) == 2:
            return "(" + " & ".join(sorted(canon(a) for a in expr.args)) + ")"
        if n in ("np.logical_or",) and len(expr.args) == 2:
            return "(" + " | ".join(sorted(canon(a) for a in expr.args)) + ")"
        fn = n if n is not None else canon(expr.func)
        if isinstance(expr.func, ast.Attribute) and n is not None:
            # method on a state alias: LOG.X.copy()
            fn = canon(expr.func)
        args = [canon(a) for a in expr.args]
        args += sorted(f"{k.arg}={canon(k.value)}" for k in expr.keywords)
        return f"{fn}({', '.join(args)})"
    if isinstance(expr, ast.Subscript):
        return f"{canon(expr.value)}[{canon(expr.slice)}]"
    if isinstance(expr, ast.Slice):
        return f"{canon(expr.lower) if expr.lower else ''}:{canon(expr.upper) if expr.upper else ''}" + (
            f":{canon(expr.step)}" if expr.step else ""
        )
    if isinstance(expr, (ast.Tuple, ast.List)):
        return "[" + ", ".join(canon(e) for e in expr.elts) + "]"
    if isinstance(expr, ast.IfExp):
        return f"({canon(expr.body)} if {canon(expr.test)} else {canon(expr.orelse)})"
    if isinstance(expr, ast.Starred):
        return "*" + canon(expr.value)
    if isinstance(expr, ast.Lambda):
        return f"lambda {','.join(a.arg for a in expr.args.args)}: {canon(expr.body)}"
    if isinstance(expr, ast.JoinedStr):
        return "fstr"
    try:
        return ast.unparse(expr)
    except Exception:  # pragma: no cover
        return expr.__class__.__name__


# ------------------------------------------------------------- linear forms
Form = Tuple[Dict[str, Fraction], Fraction]


def linear(expr: ast.AST) -> Form:
    """Exact linear form: {atom: coef}, const.  Non-linear subterms are atoms
    (their canonical string)."""
    v = const_num(expr)
    if v is not None and v == v and abs(v) != float("inf"):
        try:
            return {}, Fraction(v).limit_denominator(10**12)
        except (ValueError, OverflowError):
            pass
    if isinstance(expr, ast.UnaryOp) and isinstance(expr.op, ast.USub):
        t, c = linear(expr.operand)
        return {k: -x for k, x in t.items()}, -c
    if isinstance(expr, ast.UnaryOp) and isinstance(expr.op, ast.UAdd):
        return linear(expr.operand)
    if isinstance(expr, ast.BinOp):
        if isinstance(expr.op, (ast.Add, ast.Sub)):
            lt, lc = linear(expr.left)
            rt, rc = linear(expr.right)
            s = 1 if isinstance(expr.op, ast.Add) else -1
            out = dict(lt)
            for k, x in rt.items():
                out[k] = out.get(k, 0) + s * x
            return {k: x for k, x in out.items() if x != 0}, lc + s * rc
        if isinstance(expr.op, ast.Mult):
            lt, lc = linear(expr.left)
            rt, rc = linear(expr.right)
            if not lt:
                return {k: lc * x for k, x in rt.items() if lc * x != 0}, lc * rc
            if not rt:
                return {k: rc * x for k, x in lt.items() if rc * x != 0}, lc * rc
        if isinstance(expr.op, ast.Div):
            lt, lc = linear(expr.left)
            rt, rc = linear(expr.right)
            if not rt and rc != 0:
                return {k: x / rc for k, x in lt.items()}, lc / rc
    return {canon(expr): Fraction(1)}, Fraction(0)


def cmp_normal(expr: ast.AST, neg: bool = False) -> Optional[Tuple[str, Tuple]]:
    """Single comparison -> (rel, frozen form) meaning ``form rel 0`` with rel in
    '<', '<=', '==', '!='.  ``a >= b`` becomes ``b - a <= 0``."""
    if isinstance(expr, ast.UnaryOp) and isinstance(expr.op, ast.Not):
        return cmp_normal(expr.operand, not neg)
    if not (isinstance(expr, ast.Compare) and len(expr.ops) == 1):
        return None
    op = type(expr.ops[0])
    if neg:
        if op not in _NEG:
            return None
        op = _NEG[op]
    l, r = expr.left, expr.comparators[0]
    if op in (ast.Gt, ast.GtE):
        l, r = r, l
        op = ast.Lt if op is ast.Gt else ast.LtE
    if op not in (ast.Lt, ast.LtE, ast.Eq, ast.NotEq):
        return None
    lt, lc = linear(l)
    rt, rc = linear(r)
    form = dict(lt)
    for k, x in rt.items():
        form[k] = form.get(k, 0) - x
    form = {k: x for k, x in form.items() if x != 0}
    const = lc - rc
    rel = {ast.Lt: "<", ast.LtE: "<=", ast.Eq: "==", ast.NotEq: "!="}[op]
    if rel in ("==", "!=") and form:
        # sign-normalise
        first = sorted(form)[0]
        if form[first] < 0:
            form = {k: -x for k, x in form.items()}
            const = -const
    return rel, (tuple(sorted(form.items())), const)


def form_of(rel_form) -> Dict[str, Fraction]:
    return dict(rel_form[1][0])


def conjuncts(expr: ast.AST, pol: bool = True) -> List[Tuple[ast.AST, bool]]:
    """Split a test into its top-level conjuncts with polarity (``not (a or
    b)`` contributes ``(a, False), (b, False)``)."""
    if isinstance(expr, ast.UnaryOp) and isinstance(expr.op, ast.Not):
        return conjuncts(expr.operand, not pol)
    if isinstance(expr, ast.BoolOp):
        if (isinstance(expr.op, ast.And) and pol) or (isinstance(expr.op, ast.Or) and not pol):
            out = []
            for v in expr.values:
                out += conjuncts(v, pol)
            return out
    return [(expr, pol)]


def disjuncts(expr: ast.AST, pol: bool = True) -> List[Tuple[ast.AST, bool]]:
    if isinstance(expr, ast.UnaryOp) and isinstance(expr.op, ast.Not):
        return disjuncts(expr.operand, not pol)
    if isinstance(expr, ast.BoolOp):
        if (isinstance(expr.op, ast.Or) and pol) or (isinstance(expr.op, ast.And) and not pol):
            out = []
            for v in expr.values:
                out += disjuncts(v, pol)
            return out
    return [(expr, pol)]


def _terminates(stmts) -> bool:
    if not stmts:
        return False
    last = stmts[-1]
    if isinstance(last, (ast.Return, ast.Raise, ast.Break, ast.Continue)):
        return True
    if isinstance(last, ast.If) and last.orelse:
        return _terminates(last.body) and _terminates(last.orelse)
    return False


def guard_of(prog, fn, node: ast.AST) -> List[Tuple[ast.AST, bool]]:
    """A3: conjunction of (test, polarity) that holds whenever ``node``
    executes: enclosing if/while tests plus the complement of earlier
    ``if c: return/raise/break/continue`` statements in enclosing blocks."""
    from .cfg import enclosing_tests

    out = list(enclosing_tests(prog, fn, node))
    child = node
    for p in prog.ancestors(node):
        for fieldname in ("body", "orelse", "finalbody"):
            blk = getattr(p, fieldname, None)
            if isinstance(blk, list) and any(child is s for s in blk):
                for s in blk:
                    if s is child:
                        break
                    if isinstance(s, ast.If) and not s.orelse and _terminates(s.body):
                        out.append((s.test, False))
                    elif isinstance(s, ast.If) and s.orelse and _terminates(s.orelse) and not _terminates(s.body):
                        out.append((s.test, True))
        if p is fn.node:
            break
        child = p
    return out


def guard_extra(prog, fn, node, allowed) -> List[str]:
    """guard conjuncts of ``node`` that are not in ``allowed`` under either spelling (as written / with locals expanded)."""
    out = []
    for t, pol in guard_of(prog, fn, node):
        for c, p in conjuncts(t, pol):
            raw = canon(c, neg=not p)
            alts = {raw}
            try:
                from .rules.common import deref_expr

                full = deref_expr(prog, fn, c)
                alts |= {canon(c2, neg=not p2) for c2, p2 in conjuncts(full, p)}
            except Exception:
                pass
            if not (alts & set(allowed)):
                out.append(raw)
    return sorted(set(out))


def guard_canon(prog, fn, node, deref: bool = True) -> List[str]:
    """canonical conjuncts that hold whenever ``node`` executes.  With ``deref`` each conjunct is also given with its
    locals expanded through their unique definitions (``lvl = OS[k]; if lvl > 0`` yields both ``(0 < lvl)`` and
    ``(0 < OS[k])``), so that rules matching state keys are not tied to the spelling with or without a temporary."""
    out = []
    for t, pol in guard_of(prog, fn, node):
        for c, p in conjuncts(t, pol):
            out.append(canon(c, neg=not p))
            if deref and any(isinstance(n, ast.Name) for n in ast.walk(c)):
                try:
                    from .rules.common import deref_expr

                    full = deref_expr(prog, fn, c)
                    for c2, p2 in conjuncts(full, p):
                        out.append(canon(c2, neg=not p2))
                except Exception:
                    pass
    return sorted(set(out))


def names_in(expr: ast.AST) -> set:
    return {n.id for n in ast.walk(expr) if isinstance(n, ast.Name)}


def unparse(node) -> str:
    try:
        return ast.unparse(node)
    except Exception:
        return node.__class__.__name__


def norm_stmt(node) -> str:
    """Normalised one-line text of a statement/expression for finding keys:
    independent of line numbers, formatting and quoting style."""
    s = unparse(node)
    return " ".join(s.split())[:200]
