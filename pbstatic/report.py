"""A8 -- findings, rule bookkeeping, evidence, known findings, replay."""
from __future__ import annotations

import ast
import json
import os
import time
from dataclasses import dataclass, field
from typing import Any, Callable, Dict, List, Optional

from .model import AnalysisError, FunctionInfo, Program
from .terms import norm_stmt

VERIF = os.path.dirname(os.path.dirname(os.path.abspath(__file__)))
EVIDENCE_DIR = os.path.join(VERIF, "evidence")
KNOWN_PATH = os.path.join(VERIF, "known_findings.json")


@dataclass
class Finding:
    prop: str
    rule: str
    module: str
    function: str
    construct: str
    message: str
    lineno: Optional[int] = None
    witness: List[str] = field(default_factory=list)

    @property
    def key(self) -> str:
        return f"{self.prop}|{self.rule}|{self.module}|{self.function}|{self.construct}"

    def text(self) -> str:
        loc = f"{self.module}:{self.lineno}" if self.lineno else self.module
        w = ("\n      witness: " + " -> ".join(self.witness)) if self.witness else ""
        return f"[{self.prop}-{self.rule}] {loc} in {self.function}: {self.message}\n      construct: {self.construct}{w}"


@dataclass
class RuleInfo:
    id: str
    decides: str
    floor: int = 1
    policy: str = "fail-closed"  # or "degrade"
    instances: int = 0
    held: int = 0
    failed: int = 0
    undecided: List[str] = field(default_factory=list)
    samples: List[str] = field(default_factory=list)


class Ctx:
    """Per-run context handed to a rule pack."""

    def __init__(self, prog: Program, prop: str, tier: str, seed: int):
        self.prog = prog
        self.prop = prop
        self.tier = tier
        self.seed = seed
        self.rules: Dict[str, RuleInfo] = {}
        self.findings: List[Finding] = []
        self.assumptions: List[str] = []
        self.notes: List[str] = []
        self.extra: Dict[str, Any] = {}
        self._cur: Optional[RuleInfo] = None
        self._distinct: set = set()
        self._role_names: Dict[int, str] = {}

    def fname(self, fn) -> str:
        """stable label of a function for finding keys: role name for
        role-discovered private helpers, otherwise Class.method."""
        if not self._role_names and self.prog is not None:
            try:
                from .roles import roles_of

                R = roles_of(self.prog)
                for role in ("incumbent_update", "poll_step", "search_step", "init_mesh", "init_optim_state", "bounds_check", "seed_fn", "filter_fn"):
                    try:
                        f = getattr(R, role)
                    except Exception:
                        f = None
                    if f is not None:
                        self._role_names[id(f.node)] = (f"{f.cls.name}.<{role}>" if f.cls else f"<{role}>")
                # the run method behind a re-raising public wrapper keeps the public name in finding keys
                if getattr(R, "optimize_wrappers", None):
                    self._role_names[id(R.optimize.node)] = R.optimize_wrappers[0].short
            except Exception:
                self._role_names[-1] = ""
        return self._role_names.get(id(fn.node), fn.short)

    # rule bookkeeping -----------------------------------------------------
    def rule(self, id: str, decides: str, floor: int = 1, policy: str = "fail-closed") -> RuleInfo:
        r = self.rules.get(id)
        if r is None:
            r = self.rules[id] = RuleInfo(id, decides, floor, policy)
        self._cur = r
        return r

    def _site(self, fn, node) -> str:
        if isinstance(fn, FunctionInfo):
            return f"{fn.module.relpath}:{fn.short}:{getattr(node, 'lineno', '?') if node is not None else getattr(fn.node, 'lineno', '?')}"
        return str(fn)

    def ok(self, fn, node, what: str):
        """One obligation (rule instance) checked and held."""
        r = self._cur
        r.instances += 1
        r.held += 1
        site = self._site(fn, node)
        self._distinct.add((r.id, site, what))
        if len(r.samples) < 6:
            r.samples.append(f"{site}  {what}")

    def fail(self, fn, node, message: str, construct: Optional[str] = None, witness: Optional[List[str]] = None, rule: Optional[str] = None):
        r = self.rules[rule] if rule else self._cur
        r.instances += 1
        r.failed += 1
        if isinstance(fn, FunctionInfo):
            module, func = fn.module.relpath, self.fname(fn)
        else:
            module, func = str(fn), "-"
        if construct is None:
            construct = norm_stmt(node) if node is not None else "<missing>"
        inl = getattr(node, "_inl", None)
        if inl is not None and isinstance(fn, FunctionInfo):
            # the statement was inlined from a helper (A9): report its true source location
            module = inl[0]
            message = f"{message} [in helper {inl[1].split(':')[-1]}, analysed inlined into {fn.short}]"
        f = Finding(self.prop, r.id, module, func, construct, message, getattr(node, "lineno", None), witness or [])
        if f.key not in {x.key for x in self.findings}:
            self.findings.append(f)

    def missing(self, where, what: str, rule: Optional[str] = None):
        """A *required construct* is absent: violation (not analysis error)."""
        r = self.rules[rule] if rule else self._cur
        r.instances += 1
        r.failed += 1
        if isinstance(where, FunctionInfo):
            module, func = where.module.relpath, self.fname(where)
        else:
            module, func = str(where), "-"
        f = Finding(self.prop, r.id, module, func, f"<missing: {what}>", f"required construct not found: {what}")
        if f.key not in {x.key for x in self.findings}:
            self.findings.append(f)

    def undecided(self, reason: str):
        self._cur.undecided.append(reason)

    def assume(self, text: str):
        if text not in self.assumptions:
            self.assumptions.append(text)

    def note(self, text: str):
        self.notes.append(text)

    def check(self, cond: bool, fn, node, ok_what: str, fail_msg: str, **kw):
        if cond:
            self.ok(fn, node, ok_what)
        else:
            self.fail(fn, node, fail_msg, **kw)
        return cond

    def finish_floors(self):
        """No vacuous pass: a rule that matched *no* instance although the reference
        tree has some reports the missing construct (violation).  Matching fewer
        instances than on the reference tree (but at least one) is recorded as a
        note only - a refactoring may legitimately merge or drop sites."""
        for r in self.rules.values():
            if r.failed == 0 and not r.undecided and r.floor > 0 and r.instances == 0:
                self._cur = r
                self.missing(
                    "pybads",
                    f"rule {r.id} matched no instance at all; {r.floor} were confirmed on the reference tree ({r.decides})",
                )
            elif r.failed == 0 and r.instances < r.floor:
                self.notes.append(f"rule {r.id} matched {r.instances} instance(s), fewer than the {r.floor} confirmed on the reference tree")


def load_known() -> List[dict]:
    if not os.path.exists(KNOWN_PATH):
        return []
    with open(KNOWN_PATH) as fh:
        return json.load(fh).get("findings", [])


def match_known(f: Finding, known: List[dict]) -> Optional[dict]:
    for k in known:
        if k.get("status") != "known":
            continue
        if (
            k.get("property") == f.prop
            and k.get("rule") == f.rule
            and k.get("module") == f.module
            and k.get("function") == f.function
            and k.get("construct") == f.construct
        ):
            return k
    return None


def write_evidence(ctx: Ctx, wall: float, violations: List[Finding], known_matched: List[dict], explanation: str, error: Optional[str] = None):
    os.makedirs(EVIDENCE_DIR, exist_ok=True)
    rules = []
    obligations = discharged = 0
    samples: List[Any] = []
    undec = []
    for r in ctx.rules.values():
        obligations += r.instances
        discharged += r.held
        rules.append(
            {
                "rule": r.id,
                "decides": r.decides,
                "policy": r.policy,
                "floor": r.floor,
                "instances": r.instances,
                "held": r.held,
                "failed": r.failed,
                "undecided": r.undecided,
            }
        )
        for s in r.samples[:3]:
            samples.append({"rule": r.id, "instance": s})
        for u in r.undecided:
            undec.append(f"{r.id}: {u}")
    if not samples:
        samples = [{"note": "no rule instance matched (analysis error or empty pack)"}]
    cov = {
        "explanation": explanation,
        "obligations": obligations,
        "discharged": discharged,
        "evaluations": max(obligations, 1),
        "distinct_nontrivial": max(len(ctx._distinct), 2) if len(ctx._distinct) >= 2 else len(ctx._distinct),
        "rule": "one evaluation = one rule instance (a call site, store site, path or term obligation located in /repo's current source); distinct = distinct (rule, site, obligation) triples",
        "samples": samples,
        "rules": rules,
        "inventory": ctx.prog.inventory() if ctx.prog is not None else {},
        "undecided": undec,
        "known_findings_matched": [k.get("what_fails", "") for k in known_matched],
        "violating_constructs": [f.text() for f in violations],
        "notes": ctx.notes,
        "exhaustive": False,
    }
    cov.update(ctx.extra)
    if error:
        cov["analysis_error"] = error
    ev = {
        "property_id": ctx.prop,
        "tier": ctx.tier,
        "seed": ctx.seed,
        "level": "other",
        "coverage": cov,
        "assumptions": ctx.assumptions,
        "wall_s": round(wall, 3),
        "violations": len(violations),
    }
    path = os.path.join(EVIDENCE_DIR, f"{ctx.prop}.json")
    tmp = path + ".tmp"
    with open(tmp, "w") as fh:
        json.dump(ev, fh, indent=1, sort_keys=False)
    os.replace(tmp, path)
    return path


def write_replay(ctx: Ctx, f: Finding, n: int) -> str:
    d = os.path.join(EVIDENCE_DIR, "replay")
    os.makedirs(d, exist_ok=True)
    path = os.path.join(d, f"{ctx.prop}-{n}.json")
    with open(path, "w") as fh:
        json.dump(
            {
                "property": f.prop,
                "rule": f.rule,
                "module": f.module,
                "function": f.function,
                "construct": f.construct,
                "message": f.message,
                "lineno": f.lineno,
                "witness": f.witness,
                "key": f.key,
                "how_to_replay": f"python3-vt -m pbstatic.run --replay {path}",
            },
            fh,
            indent=1,
        )
    return path
