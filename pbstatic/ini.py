"""A7 -- reader for the two option files (they are source: values are eval'd).

Re-implements ``pybads.bads.options._read_config_file`` on configparser with
the same flags, and parses every value source with ``ast`` (never evaluated)."""
from __future__ import annotations

import ast
import configparser
import os
from typing import Dict, List, Optional, Tuple

from .model import AnalysisError
from .terms import const_num


class IniFile:
    def __init__(self, path: str):
        self.path = path
        if not os.path.exists(path):
            raise AnalysisError(f"option file {path} not found")
        conf = configparser.ConfigParser(comment_prefixes="", allow_no_value=True)
        conf.optionxform = str
        conf.read(path)
        self.options: List[Tuple[str, str, str]] = []
        description = ""
        for section in conf.sections():
            for key, value in conf.items(section):
                if "#" in key:
                    description = key.strip("# ")
                else:
                    self.options.append((key, value, description))
                    description = ""
        self.values: Dict[str, str] = {k: v for k, v, _ in self.options}

    def expr(self, key: str) -> Optional[ast.AST]:
        v = self.values.get(key)
        if v is None:
            return None
        try:
            return ast.parse(v.strip(), mode="eval").body
        except SyntaxError:
            return None

    def number(self, key: str):
        e = self.expr(key)
        return None if e is None else const_num(e)

    def literal(self, key: str):
        e = self.expr(key)
        if e is None:
            return None
        try:
            return ast.literal_eval(e)
        except Exception:
            return None


class Ini:
    def __init__(self, root: str):
        d = os.path.join(root, "pybads", "bads", "option_configs")
        self.basic = IniFile(os.path.join(d, "basic_bads_options.ini"))
        self.advanced = IniFile(os.path.join(d, "advanced_bads_options.ini"))

    def keys(self):
        return [k for k, _, _ in self.basic.options] + [k for k, _, _ in self.advanced.options]

    def expr(self, key):
        return self.basic.expr(key) if key in self.basic.values else self.advanced.expr(key)

    def number(self, key):
        return self.basic.number(key) if key in self.basic.values else self.advanced.number(key)

    def literal(self, key):
        return self.basic.literal(key) if key in self.basic.values else self.advanced.literal(key)

    def source(self, key):
        return self.basic.values.get(key, self.advanced.values.get(key))

    def has(self, key):
        return key in self.basic.values or key in self.advanced.values
