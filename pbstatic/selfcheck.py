"""setup_cmd target: verifies that the engine can run offline as it stands."""
from __future__ import annotations

import importlib
import json
import os
import sys


def main(argv=None):
    ok = True
    for mod in ("networkx", "sympy", "jsonschema"):
        try:
            importlib.import_module(mod)
        except Exception as e:  # pragma: no cover
            print(f"selfcheck: missing module {mod}: {e}")
            ok = False
    for mod in ("model", "cfg", "terms", "flow", "symb", "report", "roles", "run", "ini"):
        try:
            importlib.import_module(f"pbstatic.{mod}")
        except Exception as e:
            print(f"selfcheck: cannot import pbstatic.{mod}: {e}")
            ok = False
    here = os.path.dirname(os.path.dirname(os.path.abspath(__file__)))
    for f in ("MANIFEST.json", "known_findings.json", "properties.jsonl"):
        if not os.path.exists(os.path.join(here, f)):
            print(f"selfcheck: {f} missing")
            ok = False
    try:
        with open(os.path.join(here, "known_findings.json")) as fh:
            json.load(fh)
    except Exception as e:
        print(f"selfcheck: known_findings.json unreadable: {e}")
        ok = False
    os.makedirs(os.path.join(here, "evidence", "replay"), exist_ok=True)
    print("selfcheck:", "ok" if ok else "FAILED")
    return 0 if ok else 1


if __name__ == "__main__":
    sys.exit(main())
